// anyvec probe replay: property C19
// probe: noalloc/ops/pop_remove_swap_remove
// expected: accept   observed: reject
// without the alloc feature this program no longer compiles (E0499): let mut v: SV = AnyVec::new::<u32>(); v.push(w(1)); let a = v.pop(); v.push(w(1)); v.push(w(2)); let b = v.remove(0).downcast::<u32>(); let c = v.swap_remove(0);

#![allow(unused, dead_code, unused_mut, unused_variables)]
use any_vec::*;
use any_vec::any_value::*;
use any_vec::mem::*;
use any_vec::traits::*;
fn w(x: u32) -> AnyValueWrapper<u32> { AnyValueWrapper::new(x) }
type SV = AnyVec<dyn Cloneable, Stack<64>>;
type SN = AnyVec<dyn Cloneable, StackN<4, 64>>;

#[allow(unused, unused_mut, unused_variables, dead_code)]
pub fn probe_0() {
    let mut v: SV = AnyVec::new::<u32>();
    v.push(w(1));
    let a = v.pop();
    v.push(w(1)); v.push(w(2));
    let b = v.remove(0).downcast::<u32>();
    let c = v.swap_remove(0);
}

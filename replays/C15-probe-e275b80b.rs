// anyvec probe replay: property C15
// probe: IterRef<Cloneable+Send,UserMemNotSync>: Send
// expected: reject   observed: true
// IterRef<Cloneable+Send,UserMemNotSync>: Send holds: a shared (clonable) handle can be sent to another thread although the vector it refers to is not Sync

#![allow(unused, dead_code, unused_mut, unused_variables, non_camel_case_types)]
use any_vec::*;
use any_vec::traits::*;
use any_vec::mem::*;
use any_vec::element::*;
use any_vec::any_value::*;
use any_vec::ops;
use std::alloc::Layout;
use std::cell::Cell;
use std::marker::PhantomData;
use std::rc::Rc;
use std::sync::MutexGuard;

#[derive(Clone)]
pub struct SyncOnly(PhantomData<MutexGuard<'static, ()>>);
pub struct NC<T>(T);

macro_rules! backend {
    ($b:ident, $m:ident, $bmark:ty, $mmark:ty) => {
        #[derive(Clone, Default)]
        pub struct $b(PhantomData<$bmark>);
        pub struct $m(Layout, PhantomData<$mmark>);
        impl MemBuilder for $b {
            type Mem = $m;
            fn build(&mut self, l: Layout) -> $m { $m(l, PhantomData) }
        }
        impl Mem for $m {
            fn as_ptr(&self) -> *const u8 { self.0.align() as *const u8 }
            fn as_mut_ptr(&mut self) -> *mut u8 { self.0.align() as *mut u8 }
            fn element_layout(&self) -> Layout { self.0 }
            fn size(&self) -> usize { 0 }
        }
    };
}
backend!(BPlain, MPlain, (), ());
backend!(BNotSend, MOk1, Rc<()>, ());
backend!(BNotSync, MOk2, Cell<()>, ());
backend!(BSyncNotSend, MOk3, MutexGuard<'static, ()>, ());
backend!(BMemNotSend, MNotSend, (), Rc<()>);
backend!(BMemNotSync, MNotSync, (), Cell<()>);
backend!(BMemSyncNotSend, MSyncNotSend, (), MutexGuard<'static, ()>);

fn need_send<T: Send>(_: &T) {}
fn need_sync<T: Sync>(_: &T) {}

macro_rules! impls {
    ($t:ty : $($tr:tt)+) => {{
        trait DoesNotImpl { const IMPLS: bool = false; }
        impl<T: ?Sized> DoesNotImpl for T {}
        struct Wrapper<T: ?Sized>(PhantomData<T>);
        #[allow(dead_code)]
        impl<T: ?Sized + $($tr)+> Wrapper<T> { const IMPLS: bool = true; }
        <Wrapper<$t>>::IMPLS
    }};
}

#[allow(unused, unused_mut, unused_variables, dead_code)]
pub fn probe_0() {
    fn assert_impl<T: ?Sized + Send>() {}
    assert_impl::<IterRef<'static, dyn Cloneable + Send, BMemNotSync>>();
}

// anyvec probe replay: property C16
// probe: L2/stack_c/typed_view/at_mut_and_as_slice
// expected: reject   observed: accept
// conflicting program is ACCEPTED by rustc (class L2:two_mutable_paths): let mut v = mk_stack_c(); let mut m = v.downcast_mut::<String>().unwrap(); let a = m.at_mut(0); let b = m.as_slice(); use_ref(b); use_mut(a);

#![allow(unused, unused_mut, unused_variables, dead_code, unused_must_use)]
use any_vec::AnyVec;
use any_vec::any_value::*;
use any_vec::traits::*;
use any_vec::mem::*;

type VHeapC = AnyVec<dyn Cloneable>;
type VHeapN = AnyVec;
type VStackC = AnyVec<dyn Cloneable, Stack<64>>;
type VStackN = AnyVec<dyn None, Stack<64>>;

fn w(s: &str) -> AnyValueWrapper<String> { AnyValueWrapper::new(String::from(s)) }
fn mk_heap_c() -> VHeapC { let mut v: VHeapC = AnyVec::new::<String>(); v.push(w("a")); v.push(w("b")); v }
fn mk_heap_n() -> VHeapN { let mut v: VHeapN = AnyVec::new::<String>(); v.push(w("a")); v.push(w("b")); v }
fn mk_stack_c() -> VStackC { let mut v: VStackC = AnyVec::new::<String>(); v.push(w("a")); v.push(w("b")); v }
fn mk_stack_n() -> VStackN { let mut v: VStackN = AnyVec::new::<String>(); v.push(w("a")); v.push(w("b")); v }
fn use_it<T>(_: &T) {}
fn use_mut<T: ?Sized>(_: &mut T) {}
fn use_ref<T: ?Sized>(_: &T) {}

#[allow(unused, unused_mut, unused_variables, dead_code)]
pub fn probe_0() {
    let mut v = mk_stack_c();
    let mut m = v.downcast_mut::<String>().unwrap();
    let a = m.at_mut(0);
    let b = m.as_slice();
    use_ref(b);
    use_mut(a);
}

// anyvec probe replay: property C19
// probe: link/no_std-staticlib-without-global-allocator/no-default-features
// expected: accept   observed: reject
// a #![no_std] staticlib using the --no-default-features build does not link without a global allocator: error[E0599]: no method named `downcast` found for struct `TempValue<Op>` in the current scope

#![allow(unused, dead_code, unused_mut, unused_variables)]
use any_vec::*;
use any_vec::any_value::*;
use any_vec::mem::*;
use any_vec::traits::*;
fn w(x: u32) -> AnyValueWrapper<u32> { AnyValueWrapper::new(x) }
type SV = AnyVec<dyn Cloneable, Stack<64>>;
type SN = AnyVec<dyn Cloneable, StackN<4, 64>>;

#[allow(unused, unused_mut, unused_variables, dead_code)]
pub fn probe_0() {
    #![no_std]
    #![allow(unused)]
    use any_vec::AnyVec;
    use any_vec::any_value::AnyValueWrapper;
    use any_vec::mem::Stack;
    use any_vec::traits::None;
    
    #[panic_handler]
    fn panic(_: &core::panic::PanicInfo) -> ! { loop {} }
    
    #[no_mangle]
    pub extern "C" fn anyvec_probe(x: u32) -> u32 {
        let mut v: AnyVec<dyn None, Stack<64>> = AnyVec::new::<u32>();
        v.push(AnyValueWrapper::new(x));
        v.push(AnyValueWrapper::new(x + 1));
        let a = v.pop().unwrap().downcast::<u32>().unwrap();
        let b = *v.downcast_ref::<u32>().unwrap().at(0);
        a + b
    }
}

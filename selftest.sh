#!/bin/bash
# Silence test on the unchanged tree: every quick check under several seeds, from fresh processes.
# usage: selftest.sh [seeds...]   (default 1 2 3 4 5)
cd "$(dirname "$0")"
seeds="${@:-1 2 3 4 5}"
./check --setup || exit 2
fail=0
for s in $seeds; do
  for p in C01 C02 C03 C04 C05 C06 C07 C08 C09 C10 C11 C12 C13 C14 C15 C16 C17 C18 C19; do
    out=$(VERIF_SEED=$s ./check $p --tier quick 2>/dev/null); rc=$?
    echo "seed=$s $p rc=$rc $(echo "$out" | grep -c '^VIOLATION') violations; $(echo "$out" | tail -1 | cut -c1-120)"
    if [ $rc -ne 0 ]; then fail=1; echo "$out" | grep -E "^VIOLATION|^  \[" | head -5; fi
  done
done
exit $fail

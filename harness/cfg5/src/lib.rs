#![allow(non_camel_case_types, unused_imports)]
use any_vec::traits::*;
use anyvec_pbt::backend::{FixedB, GuardB, Multi};
use anyvec_pbt::configs::*;
use anyvec_pbt::elem::*;
#[cfg(feature = "lib_alloc")]
type Heap = any_vec::mem::Heap;
type Stack<const S: usize> = any_vec::mem::Stack<S>;
type StackN<const N: usize, const S: usize> = any_vec::mem::StackN<N, S>;

#[cfg(feature = "lib_alloc")]
anyvec_pbt::configs! {
    Tr16a4_Stack: Tr16a4, Stack<70>, dyn Cloneable, G_BACKEND | G_STACK;
    Cc24_Heap:    Cc24,   Heap,  dyn Cloneable + Send, G_BACKEND | G_RAW;
    Tr16_StackNA:  Tr16,   StackN<3, 48>,   dyn Cloneable, G_ALIGN;
    Tr3_Multi:    Tr3,    Multi, dyn Cloneable, G_LAYOUT | G_CORE | G_FAULT;
    Tr160_Multi:  Tr160,  Multi, dyn Cloneable, G_LAYOUT | G_CORE | G_FAULT;
    Pl24_Multi:   Pl24,   Multi, dyn Cloneable, G_LAYOUT;
    Tr1_Heap:     Tr1,    Heap,   dyn Cloneable, G_RAW;
    Pl0_Heap:     Pl0,    Heap,   dyn Cloneable, G_RAW;
    Tr12_Heap:    Tr12,   Heap,   dyn Cloneable, G_RAW;
    Pl3_Empty:    Pl3,    any_vec::mem::Empty, dyn Cloneable + Send + Sync, G_RAW;
    Pl3_Stack:    Pl3,    Stack<17>,      dyn Cloneable, G_BACKEND | G_STACK;
    Tr0_StackN:   Tr0,    StackN<4, 0>,   dyn Cloneable, G_BACKEND | G_STACK;
    Tr8_Heap_CSync: Tr8, Heap, dyn Cloneable + Sync,        G_CONSTRAINT | G_RAW;
}

#[cfg(not(feature = "lib_alloc"))]
anyvec_pbt::configs! {
    Tr16a4_Stack: Tr16a4, Stack<70>, dyn Cloneable, G_BACKEND | G_STACK;
    Tr16_StackNA:  Tr16,   StackN<3, 48>,   dyn Cloneable, G_ALIGN;
    Tr1_Stack:    Tr1,    Stack<6>,       dyn Cloneable, G_BACKEND | G_STACK;
}

//! `pbt <PROP> --tier quick|thorough --seed N --profile NAME --out FILE [--threads N] [--crumbs DIR]`
//! `pbt --replay FILE`
//!
//! Exit codes: 0 = property held on everything explored, 1 = violation(s) (listed in --out and
//! as replay files), 2 = usage / harness problem.

use std::time::Instant;

use anyvec_pbt::cases::Shape;
use anyvec_pbt::choices::Ch;
use anyvec_pbt::configs::ConfigEntry;
use anyvec_pbt::driver::*;
use anyvec_pbt::props::{plan_for, Tier};

fn arg(args: &[String], name: &str) -> Option<String> {
    args.iter().position(|a| a == name).and_then(|i| args.get(i + 1).cloned())
}

fn silent_panics() {
    std::panic::set_hook(Box::new(|info| {
        // panics inside library calls are part of the protocol (caught and judged); keep stderr
        // clean. A panic anywhere else is a harness bug: show it.
        let _s = anyvec_pbt::alloc::suspend();
        if !anyvec_pbt::elem::reg(|r| r.in_lib) {
            eprintln!("[harness panic] {}", info);
        }
    }));
}

fn replay(path: &str) -> i32 {
    let text = match std::fs::read_to_string(path) {
        Ok(t) => t,
        Err(e) => {
            eprintln!("cannot read {}: {}", path, e);
            return 2;
        }
    };
    let mut prop = String::new();
    let mut cfg = String::new();
    let mut shape = String::new();
    let mut picks: Vec<u32> = Vec::new();
    let mut words: Option<Vec<u16>> = None;
    for line in text.lines() {
        let line = line.trim();
        if let Some(r) = line.strip_prefix("prop ") {
            prop = r.trim().into();
        } else if let Some(r) = line.strip_prefix("cfg ") {
            cfg = r.trim().into();
        } else if let Some(r) = line.strip_prefix("shape ") {
            shape = r.trim().into();
        } else if let Some(r) = line.strip_prefix("picks") {
            picks = r.split_whitespace().filter_map(|x| x.parse().ok()).collect();
        } else if let Some(r) = line.strip_prefix("words") {
            words = Some(r.split_whitespace().filter_map(|x| x.parse::<u32>().ok()).map(|x| x as u16).collect());
        }
    }
    let configs = all_configs();
    let Some(entry) = configs.iter().find(|c| c.name == cfg) else {
        eprintln!("unknown configuration {}", cfg);
        return 2;
    };
    let Some(shape) = shape_from(&shape) else {
        eprintln!("unknown shape");
        return 2;
    };
    // strict replay: thorough-tier spec of the property (superset of quick), the spec that matches the shape
    let mut verdict = 0;
    let mut ran = false;
    for tier in [Tier::Quick, Tier::Thorough] {
        let Some(pp) = plan_for(&prop, tier) else {
            eprintln!("unknown property {}", prop);
            return 2;
        };
        for plan in pp.plans.iter().filter(|p| p.shape == shape && p.groups & entry.groups != 0) {
            ran = true;
            let mut ch = match &words {
                Some(w) => Ch::words(w.clone()),
                None => Ch::replay(picks.clone()),
            };
            let mut trace = String::new();
            let out = (entry.run)(&plan.spec, shape, &mut ch, &mut trace);
            println!("replay[{:?} tier spec]: {}", tier, trace);
            if let Some(v) = out.violation {
                println!("VIOLATION property={} replay={}", prop, path);
                println!("  detector: {}  ({})", v.sig, v.msg);
                verdict = 1;
            } else if let Some(d) = out.desync {
                println!("  (another monitor tripped: {} {})", d.sig, d.msg);
            }
        }
        if verdict == 1 {
            break;
        }
    }
    if !ran {
        eprintln!("no plan of {} matches shape/configuration of the replay file", prop);
        return 2;
    }
    verdict
}

fn main() {
    let args: Vec<String> = std::env::args().skip(1).collect();
    silent_panics();
    if let Some(p) = arg(&args, "--replay") {
        std::process::exit(replay(&p));
    }
    let Some(prop) = args.first().cloned() else {
        eprintln!("usage: pbt <PROP> --tier quick|thorough --seed N --profile NAME --out FILE");
        std::process::exit(2);
    };
    let tier = match arg(&args, "--tier").as_deref() {
        Some("thorough") => Tier::Thorough,
        _ => Tier::Quick,
    };
    let seed: u64 = arg(&args, "--seed").and_then(|s| s.parse().ok()).unwrap_or(0);
    let seed = if seed == 0 { 0x5EED_0000_A11C_E5u64 } else { seed };
    let profile = arg(&args, "--profile").unwrap_or_else(|| "rel".into());
    let out = arg(&args, "--out");
    let threads: usize = arg(&args, "--threads").and_then(|s| s.parse().ok()).unwrap_or(16);
    let crumbs = arg(&args, "--crumbs");
    let only_cfg = arg(&args, "--cfg");
    let replay_dir = arg(&args, "--replays").unwrap_or_else(|| "/verif/replays".into());

    let Some(pp) = plan_for(&prop, tier) else {
        eprintln!("unknown property {}", prop);
        std::process::exit(2);
    };
    if let Some(o) = &out {
        let p = format!("{}.found.jsonl", o);
        let _ = std::fs::remove_file(&p);
        let _ = anyvec_pbt::driver::VIOLATION_LOG.set(p);
    }
    let configs = all_configs();
    let t0 = Instant::now();
    let mut tasks: Vec<Task> = Vec::new();
    for (pi, plan) in pp.plans.iter().enumerate() {
        for entry in configs.iter().filter(|c| c.groups & plan.groups != 0) {
            if let Some(only) = &only_cfg {
                if entry.name != only {
                    continue;
                }
            }
            match plan.random {
                None => {
                    let prefixes = if plan.shape == Shape::Grid {
                        vec![Vec::new()]
                    } else if plan.shape == Shape::CapSpecial || plan.shape == Shape::Placement || plan.shape == Shape::Threshold {
                        let nf = flavours_of(entry).len() as u32;
                        (0..nf).map(|f| vec![(f, nf)]).collect()
                    } else {
                        exhaustive_prefixes(entry, plan.spec.max_len)
                    };
                    for prefix in prefixes {
                        tasks.push(Task { entry, spec: plan.spec.clone(), shape: plan.shape, work: Work::Exhaustive { prefix } });
                    }
                }
                Some((cases, max_ops)) => {
                    // split the budget in 4 independent streams per configuration
                    for k in 0..4u64 {
                        let s = seed ^ (fxhash(entry.name) .wrapping_mul(0x9E37_79B9_7F4A_7C15)).wrapping_add(k * 0x1234_5678_9ABC + pi as u64);
                        tasks.push(Task { entry, spec: plan.spec.clone(), shape: plan.shape, work: Work::Random { cases: cases / 4, max_ops, seed: s } });
                    }
                }
            }
        }
    }
    let tagname = format!("{}.{}", prop, profile);
    let stats = run_tasks(&tasks, threads, crumbs.as_deref(), &tagname);
    let wall = t0.elapsed().as_secs_f64();
    let tier_s = if tier == Tier::Quick { "quick" } else { "thorough" };
    // replay files
    let mut stats = stats;
    let _ = std::fs::create_dir_all(&replay_dir);
    for v in stats.violations.iter_mut() {
        let h = fxhash(&format!("{}{}{:?}", v.cfg, v.sig, v.picks));
        let path = format!("{}/{}-{:08x}.{}.replay", replay_dir, prop, (h as u32), profile);
        let picks: Vec<String> = v.picks.iter().map(|p| p.to_string()).collect();
        let body = format!(
            "# anyvec_pbt replay file (run: ./check {} --replay <this file>)\nprop {}\ncfg {}\nshape {}\nprofile {}\npicks {}\n# detector: {}\n# {}\n# trace: {}\n",
            prop, prop, v.cfg, v.shape, profile, picks.join(" "), v.sig, v.msg.replace('\n', " "), v.trace.replace('\n', " ")
        );
        let _ = std::fs::write(&path, body);
        v.trace = format!("{} [replay={}]", v.trace, path);
    }
    let json = stats_json(&prop, tier_s, seed, &profile, pp.rule, &pp.bound, wall, &stats);
    match out {
        Some(p) => {
            if let Err(e) = std::fs::write(&p, &json) {
                eprintln!("cannot write {}: {}", p, e);
                std::process::exit(2);
            }
        }
        None => print!("{}", json),
    }
    eprintln!(
        "[pbt {} {} {}] {} cases, {} distinct non-trivial, {} desyncs, {} violation signature(s), {:.1}s",
        prop,
        tier_s,
        profile,
        stats.evaluations,
        stats.nontrivial.len(),
        stats.desyncs,
        stats.violations.len(),
        wall
    );
    std::process::exit(if stats.violations.is_empty() { 0 } else { 1 });
}

fn fxhash(s: &str) -> u64 {
    let mut h = 0xcbf2_9ce4_8422_2325u64;
    for b in s.bytes() {
        h ^= b as u64;
        h = h.wrapping_mul(0x100_0000_01b3);
    }
    h
}

/// Split the exhaustive tree of the Step shapes by its first two picks (flavour, len).
fn exhaustive_prefixes(entry: &ConfigEntry, max_len: usize) -> Vec<Vec<(u32, u32)>> {
    let flavours = flavours_of(entry);
    let nf = flavours.len() as u32;
    let mut v = Vec::new();
    for (fi, fc) in flavours.iter().enumerate() {
        let maxlen = match fc {
            Some(c) => (*c).min(max_len),
            None => max_len,
        };
        for len in 0..=maxlen {
            v.push(vec![(fi as u32, nf), (len as u32, maxlen as u32 + 1)]);
        }
    }
    v
}

/// fixed capacities of the flavours a configuration offers (None = resizable)
fn flavours_of(entry: &ConfigEntry) -> Vec<Option<usize>> {
    (entry.flavours)(entry.elem_size).iter().map(|f| f.fixed_cap()).collect()
}

#[allow(dead_code)]
fn unused(_: Shape) {}

fn all_configs() -> Vec<ConfigEntry> {
    let mut v = Vec::new();
    v.extend(cfg1::configs());
    v.extend(cfg2::configs());
    v.extend(cfg3::configs());
    v.extend(cfg4::configs());
    v.extend(cfg5::configs());
    v.extend(cfg6::configs());
    v.extend(grid::configs());
    v.extend(pairs::configs());
    v
}

#![allow(non_camel_case_types, unused_imports)]
use any_vec::traits::*;
use anyvec_pbt::backend::{FixedB, GuardB, Multi};
use anyvec_pbt::configs::*;
use anyvec_pbt::elem::*;
#[cfg(feature = "lib_alloc")]
type Heap = any_vec::mem::Heap;
type Stack<const S: usize> = any_vec::mem::Stack<S>;
type StackN<const N: usize, const S: usize> = any_vec::mem::StackN<N, S>;

#[cfg(feature = "lib_alloc")]
anyvec_pbt::configs! {
    Tr32a8_StackN: Tr32a8, StackN<2, 64>, dyn Cloneable, G_BACKEND | G_STACK;
    Tr64_StackNA:  Tr64,   StackN<2, 128>,  dyn Cloneable, G_ALIGN;
    Tr8_Multi:    Tr8,    Multi, dyn Cloneable, G_LAYOUT | G_CORE | G_FAULT;
    Pl0_Multi:    Pl0,    Multi, dyn Cloneable, G_LAYOUT;
    Pl160_Multi:  Pl160,  Multi, dyn Cloneable, G_LAYOUT;
    Tr16_Heap:    Tr16,   Heap,   dyn Cloneable, G_RAW;
    Tr0a16_Heap:  Tr0a16, Heap,   dyn Cloneable, G_RAW;
    Tr64_Heap:    Tr64,   Heap,   dyn Cloneable, G_RAW;
    Tr8_Guard:    Tr8,    GuardB, dyn Cloneable, G_BACKEND | G_FAULT;
    Tr0_Stack:    Tr0,    Stack<8>,       dyn Cloneable, G_BACKEND | G_STACK;
    Tr8_Heap_None:  Tr8, Heap, dyn None,                    G_CONSTRAINT | G_RAW;
    Tr8_Heap_CSS:   Tr8, Heap, dyn Cloneable + Send + Sync, G_CONSTRAINT | G_RAW | G_FAULT;
}

#[cfg(not(feature = "lib_alloc"))]
anyvec_pbt::configs! {
    Tr32a8_StackN: Tr32a8, StackN<2, 64>, dyn Cloneable, G_BACKEND | G_STACK;
    Tr64_StackNA:  Tr64,   StackN<2, 128>,  dyn Cloneable, G_ALIGN;
    Tr8_StackN:   Tr8,    StackN<4, 40>,  dyn Cloneable, G_BACKEND | G_STACK | G_FAULT;
}

//! C11: generated SIZE / N grids for the inline backends `Stack<SIZE>` and `StackN<N, SIZE>`.
//!
//! Deliberately small (no interpreter): capacity formula, construction panic, fill to the
//! capacity boundary, one refused push/insert beyond it, zero allocator events.

use std::fmt::Write;

use any_vec::any_value::AnyValueWrapper;
use any_vec::mem::{MemBuilder, Stack, StackN};
use any_vec::traits::None as TNone;
use any_vec::{AnyVec, SatisfyTraits};

use crate::alloc;
use crate::cases::CaseOut;
use crate::choices::Ch;
use crate::elem::{self, reg, Elem};
use crate::world::{call, Violation, MON_CAP, MON_MODEL, MON_NOALLOC};

#[derive(Clone, Copy, Debug, PartialEq, Eq)]
pub enum Expect {
    Cap(usize),
    Unbounded,
    ConstructPanics,
}

pub trait GridBackend: MemBuilder + Sized {
    fn describe() -> String;
    fn make() -> Self;
    fn expect(elem_size: usize) -> Expect;
}
impl<const SIZE: usize> GridBackend for Stack<SIZE> {
    fn describe() -> String {
        format!("Stack<{}>", SIZE)
    }
    fn make() -> Self {
        Stack::<SIZE>
    }
    fn expect(s: usize) -> Expect {
        if s == 0 {
            Expect::Unbounded
        } else {
            Expect::Cap(SIZE / s)
        }
    }
}
impl<const N: usize, const SIZE: usize> GridBackend for StackN<N, SIZE> {
    fn describe() -> String {
        if N > (1 << 48) {
            format!("StackN<{:#x}, {}>", N, SIZE)
        } else {
            format!("StackN<{}, {}>", N, SIZE)
        }
    }
    fn make() -> Self {
        StackN::<N, SIZE>
    }
    fn expect(s: usize) -> Expect {
        match N.checked_mul(s) {
            Some(b) if b <= SIZE => Expect::Cap(N),
            _ => Expect::ConstructPanics,
        }
    }
}

fn out(v: Option<Violation>, nontrivial: bool, classes: Vec<&'static str>) -> CaseOut {
    CaseOut { violation: v, desync: None, nontrivial, classes, avoided: 0, extra_evals: 0, op_panicked: false }
}
fn viol(mon: u32, sig: &str, msg: String) -> Option<Violation> {
    Some(Violation { monitor: mon, sig: sig.to_string(), msg })
}

pub fn grid_case<T: Elem + SatisfyTraits<dyn TNone>, M: GridBackend>(ch: &mut Ch, tr: &mut String) -> CaseOut {
    elem::reset_registry();
    alloc::reset();
    let size = T::SIZE;
    let expect = M::expect(size);
    let _ = write!(tr, "[grid] {} of {} ({} B, align {}): expect {:?}; ", M::describe(), T::NAME, size, T::ALIGN, expect);
    let r = call(|| AnyVec::<dyn TNone, M>::new_in::<T>(M::make()));
    let ev = alloc::events();
    let mut vec = match (r, expect) {
        (Err(_), Expect::ConstructPanics) => {
            let _ = write!(tr, "construction panicked as required");
            if ev.total() != 0 {
                return out(viol(MON_NOALLOC, "grid:alloc-on-construct", format!("constructing {} caused heap events {:?}", M::describe(), ev)), true, vec!["construct-panics"]);
            }
            return out(None, true, vec!["construct-panics"]);
        }
        (Ok(v), Expect::ConstructPanics) => {
            let cap = v.capacity();
            std::mem::forget(v); // inline storage only: nothing to release, and the claimed capacity is bogus
            return out(
                viol(MON_CAP | MON_MODEL, "grid:constructed-although-too-small", format!("{} of {} (element size {}) was constructed with capacity {} although the elements do not fit into the buffer", M::describe(), T::NAME, size, cap)),
                true,
                vec!["construct-panics"],
            );
        }
        (Err(_), _) => {
            return out(viol(MON_CAP | MON_MODEL, "grid:construct-panicked", format!("constructing {} of {} panicked although the elements fit", M::describe(), T::NAME)), true, vec![]);
        }
        (Ok(v), _) => v,
    };
    let cap = vec.capacity();
    let cap_ok = match expect {
        Expect::Cap(c) => cap == c,
        Expect::Unbounded => cap >= (1usize << 40),
        Expect::ConstructPanics => unreachable!(),
    };
    if !cap_ok {
        let msg = format!("{} of {} (element size {}) reports capacity {} instead of {:?}", M::describe(), T::NAME, size, cap, expect);
        std::mem::forget(vec);
        return out(viol(MON_CAP | MON_MODEL, "grid:capacity", msg), true, vec![]);
    }
    let mut classes: Vec<&'static str> = Vec::new();
    // element access only when the inline storage happens to be aligned for T (C12 covers alignment)
    let aligned = (vec.as_bytes().as_ptr() as usize) % T::ALIGN == 0;
    let bound = match expect {
        Expect::Cap(c) => c,
        _ => 6,
    };
    let k = ch.pick(bound.min(6) as u32 + 1) as usize;
    let erased = ch.flip();
    let mut nontrivial = false;
    if aligned {
        let _ = write!(tr, "{} {} pushes", k, if erased { "erased" } else { "typed" });
        for i in 0..k {
            let val = T::make(i as u32 + 1);
            let r = call(|| {
                if erased {
                    vec.push(AnyValueWrapper::new(val))
                } else {
                    vec.downcast_mut::<T>().unwrap().push(val)
                }
            });
            if r.is_err() {
                let r2 = call(move || drop(vec));
                let _ = r2;
                return out(viol(MON_CAP | MON_MODEL, "grid:push-refused", format!("push number {} into {} of {} (capacity {}) panicked", i + 1, M::describe(), T::NAME, cap)), true, classes);
            }
        }
        let decode = |v: &AnyVec<dyn TNone, M>| -> Vec<Option<u32>> {
            if T::ZST {
                (0..v.len()).map(|_| Some(0)).collect()
            } else {
                v.as_bytes().chunks_exact(size).map(|c| T::see(c).payload).collect()
            }
        };
        let want: Vec<Option<u32>> = (0..k).map(|i| Some(T::norm(i as u32 + 1))).collect();
        if vec.len() != k || decode(&vec) != want {
            let got = decode(&vec);
            let r2 = call(move || drop(vec));
            let _ = r2;
            return out(viol(MON_MODEL, "grid:contents", format!("after {} pushes into {} the contents are {:?}", k, M::describe(), got)), true, classes);
        }
        if let Expect::Cap(c) = expect {
            if k == c {
                // at capacity: one more push / insert must panic and leave everything unchanged
                nontrivial = true;
                classes.push("at-capacity");
                let how = ch.pick(3);
                let _ = write!(tr, "; at capacity: {} must panic", ["push", "insert(0)", "typed push"][how as usize]);
                let val = T::make(1000);
                let r = call(|| match how {
                    0 => vec.push(AnyValueWrapper::new(val)),
                    1 => vec.insert(0, AnyValueWrapper::new(val)),
                    _ => vec.downcast_mut::<T>().unwrap().push(val),
                });
                if r.is_ok() {
                    let l = vec.len();
                    std::mem::forget(vec);
                    return out(viol(MON_CAP | MON_MODEL, "grid:overflow-accepted", format!("{} of {} with capacity {} accepted element number {}", M::describe(), T::NAME, c, l)), true, classes);
                }
                if vec.len() != k || decode(&vec) != want {
                    let got = decode(&vec);
                    std::mem::forget(vec);
                    return out(viol(MON_MODEL, "grid:changed-by-refused-push", format!("a refused push beyond capacity changed the contents to {:?}", got)), true, classes);
                }
                if T::TRACKED && !T::ZST && reg(|r| r.live) != k {
                    let live = reg(|r| r.live);
                    std::mem::forget(vec);
                    return out(viol(MON_MODEL, "grid:refused-value-not-destroyed-once", format!("after a refused push {} elements are alive, {} are in the vector", live, k)), true, classes);
                }
            } else if k + 1 == c {
                nontrivial = true;
                classes.push("below-capacity");
            }
        }
    } else {
        let _ = write!(tr, "storage not aligned for {} at this placement: capacity checks only", T::NAME);
        classes.push("unaligned-placement");
    }
    let r = call(move || drop(vec));
    if r.is_err() {
        return out(viol(MON_MODEL, "grid:drop", "dropping the vector panicked".into()), true, classes);
    }
    let ev = alloc::events();
    if ev.total() != 0 || alloc::live_count() != 0 {
        return out(viol(MON_NOALLOC, "grid:heap-events", format!("operations on {} caused heap allocator events {:?}", M::describe(), ev)), true, classes);
    }
    if T::TRACKED && !T::ZST && reg(|r| r.live) != 0 {
        return out(viol(MON_MODEL, "grid:leak", format!("{} elements alive after dropping the vector", reg(|r| r.live))), true, classes);
    }
    if let Some(f) = elem::registry_flags() {
        return out(viol(MON_MODEL, "grid:registry", f), true, classes);
    }
    if matches!(expect, Expect::Cap(0)) {
        nontrivial = true;
        classes.push("zero-capacity");
    }
    out(None, nontrivial, classes)
}

/// Adapter with the signature of `ConfigEntry::run`.
pub fn grid_run<T: Elem + SatisfyTraits<dyn TNone>, M: GridBackend>(_spec: &crate::world::Spec, _shape: crate::cases::Shape, ch: &mut Ch, tr: &mut String) -> CaseOut {
    grid_case::<T, M>(ch, tr)
}

//! capacity management, cloning, raw parts, spare-capacity writes, mutation through views, swaps.

use std::alloc::Layout;
use std::any::TypeId;
use std::fmt::Write;
use std::mem::ManuallyDrop;
use std::ptr::NonNull;

use any_vec::any_value::{AnyValue, AnyValueMut, AnyValueRaw, AnyValueSizeless, AnyValueTypeless, AnyValueTypelessMut, AnyValueWrapper};
use any_vec::AnyVec;

use crate::alloc;
use crate::backend::{self, Backend, Flavour};
use crate::elem::{reg, Elem};
use crate::tset::TSet;
use crate::world::*;

#[derive(Clone, Copy, Debug, PartialEq, Eq)]
pub enum CapOp {
    Reserve,
    ReserveExact,
    ShrinkToFit,
    ShrinkTo,
}

fn relocations() -> u64 {
    backend::memlog(|m| m.relocations)
}

impl<C: Cfg> World<C> {
    /// interesting arguments for capacity calls: small values and the overflow boundaries
    pub fn cap_arg(&self, k: usize, len: usize) -> usize {
        let size = C::T::SIZE.max(1);
        let small = self.spec.max_len + 5;
        if k <= small {
            return k;
        }
        let edges = [
            usize::MAX,
            usize::MAX - len,
            (usize::MAX - len).wrapping_add(1),
            usize::MAX - 1,
            (isize::MAX as usize) / size,
            ((isize::MAX as usize) / size).wrapping_add(1),
            ((isize::MAX as usize) / size).saturating_sub(len),
            ((isize::MAX as usize) / size).saturating_sub(len).wrapping_add(1),
            usize::MAX / size,
            (usize::MAX / size).wrapping_add(1),
            1 << 11,
            (1 << 40) + 7,
        ];
        edges[(k - small - 1) % edges.len()]
    }
    pub fn cap_arg_count(&self) -> u32 {
        (self.spec.max_len + 5 + 1 + 12) as u32
    }

    pub fn do_capacity(&mut self, op: CapOp, v: usize, n: usize, typed: bool, tr: &mut String) {
        let name = match op {
            CapOp::Reserve => "reserve",
            CapOp::ReserveExact => "reserve_exact",
            CapOp::ShrinkToFit => "shrink_to_fit",
            CapOp::ShrinkTo => "shrink_to",
        };
        let fmt_n = |n: usize| if n > (1 << 48) { format!("{:#x}", n) } else { n.to_string() };
        let _ = write!(tr, "{}{}(v{}", if typed { "typed." } else { "" }, name, v);
        if op != CapOp::ShrinkToFit {
            let _ = write!(tr, ", {}", fmt_n(n));
        }
        let _ = write!(tr, ")");
        if !C::M::RESIZABLE || self.flav[v].fixed_cap().is_some() {
            let _ = write!(tr, " [not resizable: skipped]");
            return;
        }
        let size = C::T::SIZE;
        let len = self.model[v].len();
        let vec = self.vecs[v].as_mut().unwrap();
        let cap0 = vec.capacity();
        let base0 = vec.as_bytes().as_ptr() as usize;
        let ev0 = alloc::events();
        let rel0 = relocations();
        let r = call(|| match (op, typed) {
            (CapOp::Reserve, false) => C::M::reserve(vec, n),
            (CapOp::ReserveExact, false) => C::M::reserve_exact(vec, n),
            (CapOp::ShrinkToFit, false) => C::M::shrink_to_fit(vec),
            (CapOp::ShrinkTo, false) => C::M::shrink_to(vec, n),
            (CapOp::Reserve, true) => C::M::t_reserve::<C::Tr, C::T>(vec, n),
            (CapOp::ReserveExact, true) => C::M::t_reserve_exact::<C::Tr, C::T>(vec, n),
            (CapOp::ShrinkToFit, true) => C::M::t_shrink_to_fit::<C::Tr, C::T>(vec),
            (CapOp::ShrinkTo, true) => C::M::t_shrink_to::<C::Tr, C::T>(vec, n),
        });
        let vec = self.vecs[v].as_ref().unwrap();
        let cap1 = vec.capacity();
        let base1 = vec.as_bytes().as_ptr() as usize;
        let ev1 = alloc::events();
        let rel1 = relocations();
        let quiet = ev0 == ev1 && rel0 == rel1;
        let heap = self.flav[v] == Flavour::Heap;
        match op {
            CapOp::Reserve | CapOp::ReserveExact => {
                let need = len.checked_add(n);
                let bytes = need.and_then(|x| x.checked_mul(size));
                let unrepresentable = need.is_none();
                let too_big = matches!(bytes, Some(b) if b > isize::MAX as usize) || (need.is_some() && bytes.is_none());
                if unrepresentable {
                    self.nontrivial = true;
                    self.class("len+n-overflows");
                    self.expect_panic_m(MON_CAP | MON_MODEL, name, &r, true, "len + additional is not representable");
                    if cap1 != cap0 && !self.dead() {
                        self.fail(MON_CAP, format!("{}:cap-changed-on-refusal", name), format!("{} refused but capacity changed {} -> {}", name, cap0, cap1));
                    }
                    return;
                }
                let need = need.unwrap();
                if need <= cap0 {
                    // must be a no-op: no reallocation, same capacity, same storage
                    self.expect_panic_m(MON_CAP | MON_MODEL, name, &r, false, "");
                    if n > 0 && need == cap0 {
                        self.nontrivial = true;
                        self.class("no-op-boundary");
                    }
                    if self.dead() {
                        return;
                    }
                    if cap1 != cap0 || base1 != base0 || !quiet {
                        self.fail(
                            MON_CAP,
                            format!("{}:not-a-no-op", name),
                            format!("{}({}) with len {} capacity {} already sufficient, yet capacity {} -> {}, storage moved: {}, allocator/backend events: {}", name, n, len, cap0, cap0, cap1, base1 != base0, !quiet),
                        );
                    }
                    return;
                }
                self.nontrivial = true;
                if too_big && size > 0 {
                    // C18: a request whose byte size overflows isize must panic, not reach the allocator
                    self.class("layout-overflow-boundary");
                    if r.is_ok() {
                        self.fail(MON_ALLOC, format!("{}:huge-accepted", name), format!("{}({}) needs {} x {} bytes > isize::MAX but returned normally", name, fmt_n(n), fmt_n(need), size));
                    }
                    return;
                }
                self.class("grows");
                // astronomically large requests may legitimately fail (allocation failure / the
                // amortised target max(2 x capacity, len + n) overflowing): a panic is accepted there
                let astronomical = need.max(cap0.saturating_mul(2)).saturating_mul(size.max(1)) > (1usize << 40);
                if astronomical {
                    self.class("astronomical-request");
                    if r.is_err() {
                        if cap1 != cap0 {
                            self.fail(MON_CAP, format!("{}:cap-changed-on-refusal", name), format!("{} refused but capacity changed {} -> {}", name, cap0, cap1));
                        }
                        return;
                    }
                }
                self.expect_panic_m(MON_CAP | MON_MODEL, name, &r, false, "");
                if self.dead() {
                    return;
                }
                if cap1 < need {
                    self.fail(MON_CAP, format!("{}:too-small", name), format!("after {}({}) with len {}: capacity {} < len + n = {}", name, fmt_n(n), len, cap1, fmt_n(need)));
                }
            }
            CapOp::ShrinkToFit | CapOp::ShrinkTo => {
                let floor = if op == CapOp::ShrinkToFit { len } else { len.max(n) };
                self.expect_panic_m(MON_CAP | MON_MODEL, name, &r, false, "");
                if self.dead() {
                    return;
                }
                if floor < cap0 {
                    self.nontrivial = true;
                    self.class("shrinks");
                } else if floor == cap0 || n > cap0 {
                    self.nontrivial = true;
                    self.class("no-op-boundary");
                }
                if cap1 > cap0 {
                    self.fail(MON_CAP, format!("{}:grew", name), format!("{} increased capacity {} -> {} (len {}, argument {})", name, cap0, cap1, len, fmt_n(n)));
                } else if cap1 < floor.min(cap0) {
                    self.fail(MON_CAP, format!("{}:below-floor", name), format!("{} left capacity {} below {} (len {}, argument {})", name, cap1, floor.min(cap0), len, fmt_n(n)));
                } else if heap && cap1 != floor.min(cap0) {
                    self.fail(MON_CAP, format!("{}:heap-not-exact", name), format!("{} on Heap left capacity {} instead of {} (old {}, len {}, argument {})", name, cap1, floor.min(cap0), cap0, len, fmt_n(n)));
                }
            }
        }
    }

    /// with_capacity(n): capacity >= n, or a panic when n x size overflows isize.
    pub fn with_capacity_case(&mut self, fl: Flavour, n: usize, tr: &mut String) {
        let size = C::T::SIZE;
        let fmt_n = |n: usize| if n > (1 << 48) { format!("{:#x}", n) } else { n.to_string() };
        let _ = write!(tr, "with_capacity({})", fmt_n(n));
        let tag = self.next_tag;
        self.next_tag += 1;
        let b = C::M::builder(fl, tag);
        let r = call(|| C::M::with_capacity::<C::Tr, C::T>(b, n));
        let too_big = size > 0 && n.checked_mul(size).map(|b| b > isize::MAX as usize).unwrap_or(true);
        self.nontrivial = true;
        match r {
            Ok(v) => {
                let cap = v.capacity();
                let len = v.len();
                self.flav[0] = fl;
                self.vecs[0] = Some(v);
                if too_big {
                    self.class("layout-overflow-boundary");
                    self.fail(MON_ALLOC, "with_capacity:huge-accepted", format!("with_capacity({}) needs {} x {} bytes > isize::MAX but returned normally", fmt_n(n), fmt_n(n), size));
                } else if cap < n {
                    self.fail(MON_CAP, "with_capacity:too-small", format!("with_capacity({}) gave capacity {}", fmt_n(n), cap));
                } else if len != 0 {
                    self.fail(MON_CAP | MON_MODEL, "with_capacity:len", format!("with_capacity({}) gave len {}", fmt_n(n), len));
                }
                self.check_state("with_capacity");
            }
            Err(_) => {
                if !too_big && n <= (1 << 41) {
                    self.fail(MON_CAP, "with_capacity:panic", format!("with_capacity({}) panicked", fmt_n(n)));
                }
                // a refused request must not leave anything allocated
                self.check_state("with_capacity");
            }
        }
    }

    /// 2^k pushes: the number of capacity changes must be logarithmic.
    pub fn amortisation_case(&mut self, fl: Flavour, k: u32, erased: bool, prefix: u32, tr: &mut String) {
        // at most 4 MiB of elements: whatever the growth policy, the storage stays far below the size
        // from which the instrumented allocator serves requests virtually (VIRT_LIMIT)
        let mut k = k;
        while k > 3 && (1usize << k).saturating_mul(C::T::SIZE) > (4 << 20) {
            k -= 1;
        }
        let n = 1usize << k;
        let _ = write!(tr, "prefix route {}; {} x {}push: count capacity changes", prefix % 5, n, if erased { "erased " } else { "typed " });
        // small id spaces cannot hold that many instances
        if C::T::TRACKED && !C::T::ZST && C::T::IDBYTES < 3 {
            let _ = write!(tr, " [id space too small: skipped]");
            return;
        }
        self.setup_slot(0, fl, 0, None);
        // a route before the push run: growth must stay amortised whatever happened before
        match prefix % 5 {
            1 => {
                self.do_capacity(CapOp::ReserveExact, 0, 3, false, tr);
            }
            2 => {
                self.do_capacity(CapOp::ReserveExact, 0, 16, false, tr);
                self.do_capacity(CapOp::ShrinkToFit, 0, 0, false, tr);
            }
            3 => {
                self.do_capacity(CapOp::Reserve, 0, 5, false, tr);
                self.do_bulk_push(0, 5, tr);
                self.do_capacity(CapOp::ReserveExact, 0, 1, true, tr);
            }
            4 => {
                self.do_bulk_push(0, 3, tr);
                self.do_clear(0, false, tr);
                self.do_capacity(CapOp::ShrinkTo, 0, 1, false, tr);
            }
            _ => {}
        }
        if prefix % 5 != 0 {
            let _ = write!(tr, " | ");
            self.check_state("amortisation-prefix");
            if self.dead() {
                return;
            }
        }
        let ev0 = alloc::events();
        let rel0 = relocations();
        let mut cap_changes = 0u64;
        let mut at_quarter = 0u64;
        let mut last_cap = self.vecs[0].as_ref().unwrap().capacity();
        for i in 0..n {
            let val = C::T::make(i as u32 + 1000);
            let vec = self.vecs[0].as_mut().unwrap();
            let r = call(|| {
                if erased {
                    vec.push(AnyValueWrapper::new(val))
                } else {
                    vec.downcast_mut::<C::T>().unwrap().push(val)
                }
            });
            if r.is_err() {
                self.fail(MON_CAP | MON_MODEL, "amortisation:panic", format!("push number {} panicked", i));
                return;
            }
            self.model[0].push(C::T::norm(i as u32 + 1000));
            if i + 1 == n / 4 {
                at_quarter = cap_changes;
            }
            let c = self.vecs[0].as_ref().unwrap().capacity();
            if c != last_cap {
                cap_changes += 1;
                last_cap = c;
                // far beyond any logarithmic bound already: stop (quadratic copying otherwise)
                if cap_changes > 8 * k as u64 + 64 {
                    self.nontrivial = true;
                    self.class("amortisation");
                    self.fail(MON_CAP, "amortisation:too-many-reallocations", format!("after {} of {} pushes the capacity already changed {} times; more than the logarithmic bound {}", i + 1, n, cap_changes, 4 * k as u64 + 8));
                    return;
                }
            }
        }
        let ev1 = alloc::events();
        let rel1 = relocations();
        let events = (ev1.allocs - ev0.allocs) + (ev1.reallocs - ev0.reallocs) + (rel1 - rel0);
        let limit = 4 * k as u64 + 8;
        self.nontrivial = true;
        self.class("amortisation");
        let _ = write!(tr, " -> {} capacity changes, {} allocator/backend events (limit {})", cap_changes, events, limit);
        // logarithmic growth: quadrupling the number of pushes adds a constant number of capacity
        // changes (2 for doubling, 4 for a factor of 1.5, 15 for a factor of 1.1); linear growth
        // multiplies them
        if k >= 8 && cap_changes - at_quarter > 16 {
            self.fail(MON_CAP, "amortisation:not-logarithmic", format!("the first {} pushes caused {} capacity changes, the next {} caused {} more: not logarithmic in the number of pushes", n / 4, at_quarter, n - n / 4, cap_changes - at_quarter));
            return;
        }
        if events > limit || cap_changes > limit {
            self.fail(MON_CAP, "amortisation:too-many-reallocations", format!("{} pushes caused {} capacity changes / {} allocation events; more than the logarithmic bound {}", n, cap_changes, events, limit));
            return;
        }
        self.check_state("amortisation");
    }

    /// clone() of slot v into slot w (replacing w's vector).
    /// how: 0 = `clone()`; 1..=4 = `Clone::clone_from` into a fresh vector of the same backend that
    /// holds 0 / 2 elements of the same type (1, 3) or of another type with the same layout (2, 4).
    /// Whatever the route, the result must be indistinguishable from `clone()`.
    pub fn do_clone(&mut self, v: usize, w: usize, how: u32, tr: &mut String) {
        const HOW: [&str; 5] = ["clone()", "clone_from into empty vec", "clone_from into empty vec of another type", "clone_from into vec of 2", "clone_from into vec of 2 of another type"];
        let how = how % 5;
        if how == 0 {
            let _ = write!(tr, "v{} = v{}.clone()", w, v);
        } else {
            let _ = write!(tr, "v{}: {} (v{})", w, HOW[how as usize], v);
        }
        if !<C::Tr as TSet>::CLONEABLE {
            let _ = write!(tr, " [not cloneable: skipped]");
            return;
        }
        let len = self.model[v].len();
        // drop the old occupant of w first
        if let Some(old) = self.vecs[w].take() {
            let r = call(move || drop(old));
            self.expect_panic("drop-vec", &r, false, "");
            self.model[w].clear();
        }
        let src = self.vecs[v].as_ref().unwrap();
        let src_ids: Vec<u32> = self.snapshot(v).iter().map(|s| s.id).collect();
        let before: Vec<u32> = if C::T::TRACKED && !C::T::ZST { reg(|r| src_ids.iter().map(|id| r.entries[*id as usize].cloned).collect()) } else { Vec::new() };
        let mut old_ids: Vec<u32> = Vec::new();
        let zst0 = reg(|r| r.zst_live);
        let r = if how == 0 {
            call(|| <C::Tr as TSet>::clone_vec(src))
        } else {
            let alt = how % 2 == 0;
            let tag = self.next_tag;
            self.next_tag += 1;
            let fl = self.flav[v];
            let b = C::M::builder(fl, tag);
            let mut dst: V<C> = if alt { <C::Tr as TSet>::new_alt_in::<C::T, _>(b) } else { AnyVec::new_in::<C::T>(b) };
            let k = if how >= 3 { fl.fixed_cap().unwrap_or(2).min(2) } else { 0 };
            for _ in 0..k {
                self.next_payload += 1;
                let val = C::T::make(self.next_payload);
                if C::T::TRACKED && !C::T::ZST {
                    old_ids.push(val.id());
                }
                let pr = if alt {
                    call(|| dst.downcast_mut::<crate::elem::Alt<C::T>>().unwrap().push(crate::elem::Alt(val)))
                } else {
                    call(|| dst.downcast_mut::<C::T>().unwrap().push(val))
                };
                if pr.is_err() {
                    self.fail(MON_MODEL, "setup-push", "typed push while building a clone_from destination panicked");
                    return;
                }
            }
            self.class(if alt { "clone_from:other-type" } else { "clone_from" });
            let src = self.vecs[v].as_ref().unwrap();
            call(move || {
                <C::Tr as TSet>::clone_from_vec(&mut dst, src);
                dst
            })
        };
        // "works on every backend whenever the contents fit": the contents always fit the same backend
        self.expect_panic_m(MON_CLONE | MON_MODEL, "clone", &r, false, "");
        if how != 0 {
            self.nontrivial = true;
        }
        if len > 0 {
            self.nontrivial = true;
        }
        if self.flav[v].fixed_cap().is_some() {
            self.nontrivial = true;
            self.class("fixed-capacity-clone");
        }
        let Ok(c) = r else { return };
        let src = self.vecs[v].as_ref().unwrap();
        let mut problem: Option<String> = None;
        if c.len() != len {
            problem = Some(format!("clone has len {} but the source has {}", c.len(), len));
        } else if c.element_typeid() != src.element_typeid() || c.element_typeid() != TypeId::of::<C::T>() {
            problem = Some("clone reports a different element_typeid".into());
        } else if c.element_layout() != src.element_layout() || c.element_layout() != Layout::new::<C::T>() {
            problem = Some("clone reports a different element_layout".into());
        } else if c.capacity() < len {
            problem = Some(format!("clone has capacity {} < len {}", c.capacity(), len));
        } else if c.capacity().saturating_mul(C::T::SIZE) > 0 && src.capacity().saturating_mul(C::T::SIZE) > 0 && c.as_bytes().as_ptr() == src.as_bytes().as_ptr() {
            problem = Some("clone shares the storage pointer of its source".into());
        } else if <C::Tr as TSet>::element_clone_addr(&c) != <C::Tr as TSet>::element_clone_addr(src) || c.element_drop().map(|f| f as usize) != src.element_drop().map(|f| f as usize) {
            problem = Some("clone has different element clone/drop functions".into());
        }
        self.flav[w] = self.flav[v];
        self.model[w] = self.model[v].clone();
        self.vecs[w] = Some(c);
        self.expect_clones += if C::T::COUNTS_CLONES { len as u64 } else { 0 };
        if let Some(p) = problem {
            self.fail(MON_CLONE | MON_MODEL, "clone:shape", p);
            return;
        }
        // the former contents of a clone_from destination are destroyed, exactly once
        if !old_ids.is_empty() {
            let alive: Vec<u32> = reg(|r| old_ids.iter().copied().filter(|id| r.entries.get(*id as usize).map(|e| e.alive).unwrap_or(false)).collect());
            if !alive.is_empty() {
                self.fail(MON_CLONE | MON_MODEL | MON_OWN, "clone_from:old-elements", format!("clone_from left {} former element(s) of the destination alive (ids {:?})", alive.len(), alive));
                return;
            }
        } else if how >= 3 && C::T::TRACKED && C::T::ZST {
            let z1 = reg(|r| r.zst_live);
            if z1 != zst0 + len as i64 {
                self.fail(MON_CLONE | MON_MODEL | MON_OWN, "clone_from:old-elements", format!("clone_from of {} zero-sized elements into a vector of 2 changed the number of live values from {} to {}", len, zst0, z1));
                return;
            }
        }
        if C::T::TRACKED && !C::T::ZST {
            let after: Vec<u32> = reg(|r| src_ids.iter().map(|id| r.entries[*id as usize].cloned).collect());
            for i in 0..src_ids.len() {
                if after[i] != before[i] + 1 {
                    self.fail(MON_CLONE, "clone:per-element", format!("source element {} (id {}) was cloned {} times by clone(), expected exactly once", i, src_ids[i], after[i] - before[i]));
                    return;
                }
            }
            // i-th element of the clone must originate from the i-th source element
            let origins: Vec<u32> = self.snapshot(w).iter().map(|s| reg(|r| r.entries.get(s.id as usize).map(|e| e.origin).unwrap_or(0))).collect();
            if origins != src_ids {
                self.fail(MON_CLONE | MON_MODEL, "clone:origin", format!("clone's elements originate from ids {:?}, source ids are {:?}", origins, src_ids));
            }
        }
    }

    /// clone_empty() / clone_empty_in(builder of flavour `fl`) of slot v into slot w.
    pub fn do_clone_empty(&mut self, v: usize, w: usize, fl: Option<Flavour>, tr: &mut String) {
        match fl {
            Some(f) => {
                let _ = write!(tr, "v{} = v{}.clone_empty_in({})", w, v, f.name());
            }
            None => {
                let _ = write!(tr, "v{} = v{}.clone_empty()", w, v);
            }
        }
        if let Some(old) = self.vecs[w].take() {
            let r = call(move || drop(old));
            self.expect_panic("drop-vec", &r, false, "");
            self.model[w].clear();
        }
        let tag = self.next_tag;
        self.next_tag += 1;
        let src = self.vecs[v].as_ref().unwrap();
        let cc0 = reg(|r| (r.clone_calls, r.drop_calls));
        let r = call(|| match fl {
            Some(f) => src.clone_empty_in(C::M::builder(f, tag)),
            None => src.clone_empty(),
        });
        self.expect_panic_m(MON_CLONE | MON_MODEL, "clone_empty", &r, false, "");
        self.nontrivial = true;
        let Ok(c) = r else { return };
        let newfl = fl.unwrap_or(self.flav[v]);
        let src = self.vecs[v].as_ref().unwrap();
        let mut problem: Option<String> = None;
        if c.len() != 0 || !c.is_empty() {
            problem = Some(format!("empty clone has len {}", c.len()));
        } else if c.element_typeid() != TypeId::of::<C::T>() || c.element_typeid() != src.element_typeid() {
            problem = Some("empty clone reports a different element_typeid".into());
        } else if c.element_layout() != Layout::new::<C::T>() {
            problem = Some(format!("empty clone reports element_layout {:?} instead of {:?}", c.element_layout(), Layout::new::<C::T>()));
        } else if c.element_drop().map(|f| f as usize) != src.element_drop().map(|f| f as usize) {
            problem = Some("empty clone has a different element drop function".into());
        } else if <C::Tr as TSet>::CLONEABLE && <C::Tr as TSet>::element_clone_addr(&c) != <C::Tr as TSet>::element_clone_addr(src) {
            problem = Some("empty clone has a different element clone function".into());
        } else if reg(|r| (r.clone_calls, r.drop_calls)) != cc0 {
            problem = Some("clone_empty cloned or destroyed elements".into());
        }
        if fl.is_some() && fl != Some(self.flav[v]) {
            self.class("cross-backend");
        }
        self.flav[w] = newfl;
        self.model[w].clear();
        self.vecs[w] = Some(c);
        if let Some(p) = problem {
            self.fail(MON_CLONE | MON_MODEL, "clone_empty:shape", p);
        }
    }

    /// into_raw_parts -> (RawParts::clone) -> from_raw_parts on slot v.
    pub fn do_raw_parts(&mut self, v: usize, clone_parts: bool, tr: &mut String) {
        let _ = write!(tr, "v{} = from_raw_parts(v{}.into_raw_parts(){})", v, v, if clone_parts { ".clone() [other copy discarded]" } else { "" });
        if !C::M::RAWPARTS {
            let _ = write!(tr, " [no raw parts: skipped]");
            return;
        }
        let vec = self.vecs[v].take().unwrap();
        let len = vec.len();
        let cap = vec.capacity();
        let base = vec.as_bytes().as_ptr() as usize;
        let drop_addr = vec.element_drop().map(|f| f as usize).unwrap_or(0);
        let clone_addr = if <C::Tr as TSet>::CLONEABLE { <C::Tr as TSet>::element_clone_addr(&vec) } else { 0 };
        let ev0 = alloc::events();
        let rg0 = reg(|r| (r.clone_calls, r.drop_calls));
        let r = call(move || C::M::raw_round_trip(vec, clone_parts));
        let ev1 = alloc::events();
        let rg1 = reg(|r| (r.clone_calls, r.drop_calls));
        self.expect_panic("raw_parts", &r, false, "");
        if len > 0 && cap > len || clone_parts {
            self.nontrivial = true;
        }
        if clone_parts {
            self.class("parts-cloned");
        }
        let Ok((nv, seen)) = r else { return };
        // the rebuilt vector must be indistinguishable from the original
        let rebuilt = (
            nv.len(),
            nv.capacity(),
            nv.as_bytes().as_ptr() as usize,
            nv.element_typeid(),
            nv.element_layout(),
            nv.element_drop().map(|f| f as usize).unwrap_or(0),
            if <C::Tr as TSet>::CLONEABLE { <C::Tr as TSet>::element_clone_addr(&nv) } else { 0 },
        );
        self.vecs[v] = Some(nv);
        let original = (len, cap, base, TypeId::of::<C::T>(), Layout::new::<C::T>(), drop_addr, clone_addr);
        if rebuilt != original {
            self.fail(
                MON_MODEL,
                "raw_parts:rebuilt",
                format!("vector rebuilt by from_raw_parts differs from the original: (len, capacity, storage, typeid, layout, drop fn, clone fn) = {:?}, original {:?}", rebuilt, original),
            );
            return;
        }
        let want_layout = Layout::new::<C::T>();
        let tid = TypeId::of::<C::T>();
        let mut problem: Option<String> = None;
        if ev0 != ev1 {
            problem = Some(format!("raw-parts round trip caused allocator events {:?} -> {:?}", ev0, ev1));
        } else if rg0 != rg1 {
            problem = Some("raw-parts round trip cloned or destroyed elements".into());
        } else if seen.len != len || seen.capacity != cap {
            problem = Some(format!("RawParts report len {} capacity {} but the vector had len {} capacity {}", seen.len, seen.capacity, len, cap));
        } else if seen.layout != want_layout || seen.typeid != tid {
            problem = Some("RawParts report a wrong element layout or type id".into());
        } else if seen.drop_is_some != std::mem::needs_drop::<C::T>() || seen.drop_addr != drop_addr {
            problem = Some("RawParts report a wrong element_drop".into());
        } else if <C::Tr as TSet>::CLONEABLE && seen.clone_addr != clone_addr {
            problem = Some("RawParts report a wrong element_clone".into());
        } else if self.flav[v] == Flavour::Heap && seen.handle_addr != base {
            problem = Some("RawParts mem_handle is not the storage pointer".into());
        } else if seen.cloned
            && (seen.c_len != len || seen.c_capacity != cap || seen.c_layout != want_layout || seen.c_typeid != tid || seen.c_drop_addr != seen.drop_addr || seen.c_clone_addr != seen.clone_addr || seen.c_handle_addr != seen.handle_addr)
        {
            problem = Some(format!(
                "field-wise clone of RawParts differs: len {} (orig {}), capacity {} (orig {}), drop fn equal: {}, clone fn equal: {}, handle equal: {}",
                seen.c_len,
                len,
                seen.c_capacity,
                cap,
                seen.c_drop_addr == seen.drop_addr,
                seen.c_clone_addr == seen.clone_addr,
                seen.c_handle_addr == seen.handle_addr
            ));
        }
        if let Some(p) = problem {
            self.fail(MON_MODEL, "raw_parts:fields", p);
        }
    }

    /// write k new elements into spare capacity (typed or byte view), then set_len.
    pub fn do_write_spare(&mut self, v: usize, k: usize, typed: bool, tr: &mut String) {
        let len = self.model[v].len();
        let size = C::T::SIZE;
        let vec = self.vecs[v].as_mut().unwrap();
        let cap = vec.capacity();
        let k = k.min(cap - len).min(8);
        let _ = write!(tr, "{}(v{}) write {} then set_len({})", if typed { "typed.spare_capacity_mut" } else { "spare_bytes_mut" }, v, k, len + k);
        let base = vec.as_bytes().as_ptr() as usize;
        let mut payloads = Vec::new();
        let mut vals: Vec<ManuallyDrop<C::T>> = Vec::new();
        for _ in 0..k {
            let p = self.next_payload;
            self.next_payload += 1;
            payloads.push(C::T::norm(p));
            vals.push(ManuallyDrop::new(C::T::make(p)));
        }
        let vec = self.vecs[v].as_mut().unwrap();
        let want_len = (cap - len).min(usize::MAX / size.max(1));
        let r = call(|| {
            if typed {
                let mut t = vec.downcast_mut::<C::T>().unwrap();
                let sp = t.spare_capacity_mut();
                let obs = (sp.as_ptr() as usize, sp.len());
                if sp.len() >= k {
                    for (i, val) in vals.iter_mut().enumerate() {
                        sp[i].write(unsafe { ManuallyDrop::take(val) });
                    }
                    unsafe { t.set_len(len + k) };
                }
                obs
            } else {
                let sp = vec.spare_bytes_mut();
                let obs = (sp.as_ptr() as usize, if size == 0 { want_len } else { sp.len() / size });
                let ok = size == 0 || (sp.len() >= k * size && sp.as_ptr() as usize == base + len * size);
                if ok {
                    for (i, val) in vals.iter_mut().enumerate() {
                        unsafe {
                            std::ptr::copy_nonoverlapping(&**val as *const C::T as *const u8, sp.as_mut_ptr().add(i * size) as *mut u8, size);
                        }
                        let _ = i;
                    }
                    unsafe { vec.set_len(len + k) };
                }
                obs
            }
        });
        self.expect_panic("write_spare", &r, false, "");
        if 0 < len && len < cap {
            self.nontrivial = true;
        }
        let Ok((ptr, n)) = r else {
            for mut x in vals {
                unsafe { ManuallyDrop::drop(&mut x) };
            }
            return;
        };
        let exp_ptr = base + len * size;
        if (size > 0 && ptr != exp_ptr) || n != want_len {
            self.fail(
                MON_VIEW | MON_MODEL,
                if typed { "spare_capacity_mut:region" } else { "spare_bytes_mut:region" },
                format!(
                    "spare view of a vector with len {} capacity {} element size {} starts at storage offset {} (expected {}) and covers {} elements (expected {})",
                    len,
                    cap,
                    size,
                    ptr.wrapping_sub(base),
                    len * size,
                    n,
                    want_len
                ),
            );
            // values not written are still ours
            for mut x in vals {
                unsafe { ManuallyDrop::drop(&mut x) };
            }
            return;
        }
        self.model[v].extend(payloads);
    }

    /// `n` typed pushes (bulk growth for large vectors).
    pub fn do_bulk_push(&mut self, v: usize, n: usize, tr: &mut String) {
        let room = match self.flav[v].fixed_cap() {
            Some(c) => c - self.model[v].len().min(c),
            None => usize::MAX,
        };
        // small id spaces: keep the number of instances ever created within the id space
        let budget = if C::T::TRACKED && !C::T::ZST && C::T::IDBYTES == 1 { 100usize.saturating_sub(reg(|r| r.entries.len())) / 2 } else { usize::MAX };
        // keep vectors small enough that a virtually served block always covers the live elements
        let n = n.min(room).min(budget).min(800usize.saturating_sub(self.model[v].len()));
        let _ = write!(tr, "bulk_push(v{}, {})", v, n);
        for _ in 0..n {
            let p = self.fresh();
            let val = C::T::make(p);
            let vec = self.vecs[v].as_mut().unwrap();
            let r = call(|| vec.downcast_mut::<C::T>().unwrap().push(val));
            self.expect_panic("bulk_push", &r, false, "");
            if r.is_err() {
                return;
            }
            self.model[v].push(C::T::norm(p));
        }
        if n > 0 {
            self.nontrivial = true;
        }
    }

    /// drop the vector in slot v and create a fresh empty one of flavour `fl`.
    pub fn do_drop_new(&mut self, v: usize, fl: Flavour, tr: &mut String) {
        let _ = write!(tr, "drop(v{}); v{} = new {}", v, v, fl.name());
        if let Some(old) = self.vecs[v].take() {
            let n = old.len();
            let r = call(move || drop(old));
            self.expect_panic("drop-vec", &r, false, "");
            self.model[v].clear();
            if n > 0 {
                self.nontrivial = true;
            }
        }
        self.setup_slot(v, fl, 0, None);
    }

    /// Replace element idx through one of the mutable views (returns the old value to us).
    pub fn do_mutate(&mut self, v: usize, idx: usize, writer: u32, tr: &mut String) {
        const NAMES: [&str; 8] = ["at_mut.downcast_mut", "get_mut.as_bytes_mut", "typed.at_mut", "typed.get_mut", "typed.as_mut_slice", "typed.iter_mut.nth", "as_bytes_mut(region)", "iter_mut.nth.downcast_mut"];
        let name = NAMES[writer as usize % 8];
        let len = self.model[v].len();
        let _ = write!(tr, "mutate(v{}[{}] via {})", v, idx, name);
        if len == 0 {
            let _ = write!(tr, " [empty: skipped]");
            return;
        }
        let idx = idx % len;
        let p = self.fresh();
        let mut nv = C::T::make(p);
        let size = C::T::SIZE;
        let vec = self.vecs[v].as_mut().unwrap();
        let nvp = &mut nv;
        let r = call(|| match writer % 8 {
            0 => {
                let mut e = vec.at_mut(idx);
                std::mem::swap(e.downcast_mut::<C::T>().expect("downcast_mut to the real type failed"), nvp);
            }
            1 => {
                let mut e = vec.get_mut(idx).expect("get_mut in range returned None");
                let b = e.as_bytes_mut();
                assert_eq!(b.len(), size, "ElementMut::as_bytes_mut length");
                unsafe { std::ptr::swap_nonoverlapping(b.as_mut_ptr(), nvp as *mut C::T as *mut u8, size) };
            }
            2 => std::mem::swap(vec.downcast_mut::<C::T>().unwrap().at_mut(idx), nvp),
            3 => std::mem::swap(vec.downcast_mut::<C::T>().unwrap().get_mut(idx).expect("typed get_mut in range returned None"), nvp),
            4 => std::mem::swap(&mut vec.downcast_mut::<C::T>().unwrap().as_mut_slice()[idx], nvp),
            5 => std::mem::swap(vec.downcast_mut::<C::T>().unwrap().iter_mut().nth(idx).expect("typed iter_mut too short"), nvp),
            6 => {
                let b = vec.as_bytes_mut();
                unsafe { std::ptr::swap_nonoverlapping(b.as_mut_ptr().add(idx * size), nvp as *mut C::T as *mut u8, size) };
            }
            _ => {
                let mut e = vec.iter_mut().nth(idx).expect("iter_mut too short");
                std::mem::swap(e.downcast_mut::<C::T>().expect("downcast_mut to the real type failed"), nvp);
            }
        });
        self.expect_panic(name, &r, false, "");
        self.nontrivial = true;
        let old = nv.payload();
        let want_old = self.model[v][idx];
        self.model[v][idx] = C::T::norm(p);
        drop(nv);
        if r.is_ok() && old != Some(want_old) {
            self.fail(MON_VIEW | MON_MODEL, format!("mutate:{}", name), format!("{} at index {} gave access to payload {:?}, the element there is {}", name, idx, old, want_old));
        }
    }

    /// AnyValueMut::swap between two value handles of the given kinds.
    /// kinds: 0 ElementMut, 1 removal handle (then re-inserted at the same index), 2 wrapper (local),
    /// 3 raw (local), 4 drained element (then pushed back at the end)
    pub fn do_swap(&mut self, v: usize, i: usize, ka: u32, w: usize, j: usize, kb: u32, tr: &mut String) {
        const KN: [&str; 5] = ["ElementMut", "Remove handle", "AnyValueWrapper", "AnyValueRaw", "drained Element"];
        let (ka, kb) = (ka % 5, kb % 5);
        let _ = write!(tr, "swap({} of v{}[{}], {} of v{}[{}])", KN[ka as usize], v, i, KN[kb as usize], w, j);
        let (lv, lw) = (self.model[v].len(), self.model[w].len());
        let needs_v = matches!(ka, 0 | 1 | 4);
        let needs_w = matches!(kb, 0 | 1 | 4);
        if (needs_v && lv == 0) || (needs_w && lw == 0) {
            let _ = write!(tr, " [empty: skipped]");
            return;
        }
        let i = if lv > 0 { i % lv } else { 0 };
        let j = if lw > 0 { j % lw } else { 0 };
        let (pa, pb) = (self.fresh(), self.fresh());
        let mut la = ManuallyDrop::new(C::T::make(pa));
        let mut lb = ManuallyDrop::new(C::T::make(pb));
        let size = C::T::SIZE;
        let tid = TypeId::of::<C::T>();
        let (va, vb) = self.two(v, w);
        let lap = &mut la;
        let lbp = &mut lb;
        // second level: with `a` bound, bind `b` and swap
        macro_rules! with_b {
            ($a:expr) => {
                match kb {
                    0 => {
                        let mut b = vb.at_mut(j);
                        $a.swap(&mut *b);
                    }
                    1 => {
                        let mut b = vb.remove(j);
                        $a.swap(&mut b);
                        // a Remove handle only removes when consumed; consume into a local and put back
                        let val = b.downcast::<C::T>().expect("downcast of removal handle failed");
                        vb.downcast_mut::<C::T>().unwrap().insert(j, val);
                    }
                    2 => {
                        let mut b = AnyValueWrapper::new(unsafe { ManuallyDrop::take(lbp) });
                        $a.swap(&mut b);
                        unsafe { std::ptr::write(&mut **lbp, b.downcast::<C::T>().expect("downcast of wrapper failed")) };
                    }
                    3 => {
                        let mut b = unsafe { AnyValueRaw::new(NonNull::from(&mut **lbp).cast::<u8>(), size, tid) };
                        $a.swap(&mut b);
                    }
                    _ => {
                        let mut d = vb.drain(j..j + 1);
                        let mut b = d.next().expect("drain of one element yielded nothing");
                        $a.swap(&mut b);
                        let val = b.downcast::<C::T>().expect("downcast of drained element failed");
                        drop(d);
                        vb.downcast_mut::<C::T>().unwrap().insert(j, val);
                    }
                }
            };
        }
        let r = call(|| match ka {
            0 => {
                let mut a = va.at_mut(i);
                with_b!((*a));
            }
            1 => {
                let mut a = va.remove(i);
                with_b!(a);
                let val = a.downcast::<C::T>().expect("downcast of removal handle failed");
                va.downcast_mut::<C::T>().unwrap().insert(i, val);
            }
            2 => {
                let mut a = AnyValueWrapper::new(unsafe { ManuallyDrop::take(lap) });
                with_b!(a);
                unsafe { std::ptr::write(&mut **lap, a.downcast::<C::T>().expect("downcast of wrapper failed")) };
            }
            3 => {
                let mut a = unsafe { AnyValueRaw::new(NonNull::from(&mut **lap).cast::<u8>(), size, tid) };
                with_b!(a);
            }
            _ => {
                let mut d = va.drain(i..i + 1);
                let mut a = d.next().expect("drain of one element yielded nothing");
                with_b!(a);
                let val = a.downcast::<C::T>().expect("downcast of drained element failed");
                drop(d);
                va.downcast_mut::<C::T>().unwrap().insert(i, val);
            }
        });
        self.expect_panic("swap", &r, false, "");
        self.nontrivial = true;
        if ka != kb {
            self.class("mixed-handle-kinds");
        }
        // expected exchange
        let a_old = if needs_v { self.model[v][i] } else { C::T::norm(pa) };
        let b_old = if needs_w { self.model[w][j] } else { C::T::norm(pb) };
        if needs_v {
            self.model[v][i] = b_old;
        }
        if needs_w {
            self.model[w][j] = a_old;
        }
        let la_now = la.payload();
        let lb_now = lb.payload();
        unsafe {
            ManuallyDrop::drop(&mut la);
            ManuallyDrop::drop(&mut lb);
        }
        if r.is_err() || self.dead() {
            return;
        }
        let la_want = if needs_v { C::T::norm(pa) } else { b_old };
        let lb_want = if needs_w { C::T::norm(pb) } else { a_old };
        if la_now != Some(la_want) || lb_now != Some(lb_want) {
            self.fail(
                MON_VIEW | MON_MODEL,
                format!("swap:{}x{}", KN[ka as usize], KN[kb as usize]),
                format!("after swap the local values hold {:?}/{:?}, expected {}/{}", la_now, lb_now, la_want, lb_want),
            );
        }
    }
}

impl<C: Cfg> World<C> {
    /// Move the vector value(s) to another address. how 0: the vectors of slots `v` and `w` trade
    /// places (bitwise swap of the two values); how 1: the vector of slot `v` travels through a
    /// heap box and back. A vector owns its state by value, so nothing observable may change
    /// (inline storage travels with the value; heap storage stays where it is).
    pub fn do_move(&mut self, v: usize, w: usize, how: u32, tr: &mut String) {
        use std::fmt::Write;
        if self.vecs[v].is_none() || (how == 0 && (self.vecs[w].is_none() || v == w)) {
            let _ = write!(tr, "move(skipped)");
            return;
        }
        self.nontrivial = true;
        if how == 0 {
            let _ = write!(tr, "move(v{} <-> v{})", v, w);
            let _s = crate::alloc::suspend();
            self.vecs.swap(v, w);
            self.model.swap(v, w);
            self.flav.swap(v, w);
            self.prev_len.swap(v, w);
            self.class("move:swap-places");
        } else {
            let _ = write!(tr, "move(v{} -> Box -> v{})", v, v);
            let _s = crate::alloc::suspend();
            let taken = self.vecs[v].take().unwrap();
            let boxed = std::hint::black_box(Box::new(taken));
            // occupy the old place meanwhile, so that a stale self-pointer does not find its old bytes
            let back: V<C> = *boxed;
            self.vecs[v] = Some(std::hint::black_box(back));
            self.class("move:through-box");
        }
    }
}

//! Per-property plans: which operations, monitors, shapes, configurations and budgets.

use crate::cases::Shape;
use crate::configs::*;
use crate::world::*;

#[derive(Clone, Copy, PartialEq, Eq, Debug)]
pub enum Tier {
    Quick,
    Thorough,
}

pub struct Plan {
    pub shape: Shape,
    pub groups: u32,
    /// exhaustive (None) or random with (cases per config, max ops)
    pub random: Option<(u32, usize)>,
    pub spec: Spec,
}

pub struct PropPlan {
    pub rule: &'static str,
    pub bound: String,
    pub plans: Vec<Plan>,
}

fn spec(prop: &'static str, ops: u64, mon: u32, max_len: usize) -> Spec {
    Spec { prop, ops, mon, max_len, sinks: SINKS_C01, allow_forget: false, avoid: AVOID_NONE }
}

pub fn plan_for(prop: &str, tier: Tier) -> Option<PropPlan> {
    let q = tier == Tier::Quick;
    let l = if q { 4 } else { 6 };
    let (hc, ho) = if q { (400u32, 40usize) } else { (6000u32, 120usize) };
    match prop {
        "C01" => Some(PropPlan {
            rule: "case = (backend flavour, len, spare capacity class, one push/insert/pop/remove/swap_remove/clear/get/iter instance with index 0..=len+1, value source, sink, erased/typed path) enumerated exhaustively, plus proptest histories over three vectors; non-trivial = the operation changes the sequence, uses a boundary or out-of-range index, or moves a value between vectors; distinct = distinct (configuration, pick sequence)",
            bound: format!("exhaustive one-step for len<={} on all layout/backend/constraint configurations{}; proptest {} histories x <= {} ops per configuration", l, if q { "" } else { ", exhaustive two-step for len<=3 on the core configurations" }, hc, ho),
            plans: {
                let mut v = vec![
                    Plan { shape: Shape::Step, groups: G_LAYOUT | G_BACKEND | G_CONSTRAINT, random: None, spec: spec("C01", OPS_C01, MON_MODEL, l) },
                    Plan { shape: Shape::History, groups: G_LAYOUT | G_BACKEND | G_CONSTRAINT, random: Some((hc, ho)), spec: spec("C01", OPS_C01 | ops(&[OP_DRAIN]), MON_MODEL, l) },
                ];
                if !q {
                    v.push(Plan { shape: Shape::Step2, groups: G_CORE, random: None, spec: spec("C01", OPS_C01, MON_MODEL, 3) });
                }
                v
            },
        }),
        "C02" => Some(PropPlan {
            rule: "case = (state, drain|splice, range in one of 9 RangeBounds forms incl. invalid and usize::MAX bounds, next/next_back string, per-item sink, replacement source and length, erased/typed) enumerated exhaustively in three sub-sweeps (forms x bounds; ranges x consumption strings; ranges x replacement kinds), plus proptest histories; non-trivial = non-empty range or replacement, or invalid range; distinct = distinct (configuration, pick sequence)",
            bound: format!("exhaustive one-step for len<={} on all configurations; proptest {} histories x <= {} ops per configuration", l, hc, ho),
            plans: vec![
                Plan { shape: Shape::Step, groups: G_LAYOUT | G_BACKEND | G_CONSTRAINT, random: None, spec: spec("C02", OPS_C02, MON_MODEL | MON_ITER, l) },
                Plan { shape: Shape::History, groups: G_LAYOUT | G_BACKEND, random: Some((hc, ho)), spec: spec("C02", OPS_C02 | ops(&[OP_PUSH, OP_INSERT, OP_REMOVE]), MON_MODEL | MON_ITER, l) },
            ],
        }),
        "C03" => Some(PropPlan {
            rule: "case = history of C01+C02 operations over three vectors exchanging elements (tracked types by identity, plain types by value, zero-sized by count), registry/ledger invariants after every step and at the end; non-trivial = at least one element changed owner (moved, extracted, cloned or destroyed by a range drop); distinct = distinct (configuration, pick sequence)",
            bound: format!("exhaustive one-step for len<={}; proptest {} histories x <= {} ops per configuration", l, hc, ho),
            plans: vec![
                Plan { shape: Shape::Step, groups: G_LAYOUT | G_BACKEND, random: None, spec: spec("C03", OPS_C01 | OPS_C02 | ops(&[OP_CLEAR]), MON_OWN, l.min(4)) },
                Plan { shape: Shape::History, groups: G_LAYOUT | G_BACKEND | G_CONSTRAINT, random: Some((hc, ho)), spec: spec("C03", OPS_C01 | OPS_C02, MON_OWN, l) },
            ],
        }),
        _ => None,
    }
}

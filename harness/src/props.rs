//! Per-property plans: which operations, monitors, shapes, configurations and budgets.

use crate::cases::Shape;
use crate::configs::*;
use crate::world::*;

#[derive(Clone, Copy, PartialEq, Eq, Debug)]
pub enum Tier {
    Quick,
    Thorough,
}

pub struct Plan {
    pub shape: Shape,
    pub groups: u32,
    /// exhaustive (None) or random with (cases per config, max ops)
    pub random: Option<(u32, usize)>,
    pub spec: Spec,
}

pub struct PropPlan {
    pub rule: &'static str,
    pub bound: String,
    pub plans: Vec<Plan>,
}

fn spec(prop: &'static str, ops: u64, mon: u32, max_len: usize) -> Spec {
    Spec { prop, ops, mon, max_len, sinks: SINKS_C01, allow_forget: false, fault_enum: false, allow_lies: false, extra_calls: 1, avoid: AVOID_NONE }
}

pub fn plan_for(prop: &str, tier: Tier) -> Option<PropPlan> {
    let q = tier == Tier::Quick;
    let l = if q { 4 } else { 6 };
    let (hc, ho) = if q { (1000u32, 60usize) } else { (20000u32, 120usize) };
    match prop {
        "C01" => Some(PropPlan {
            rule: "case = (backend flavour, len, spare capacity class, one push/insert/pop/remove/swap_remove/clear/get/iter instance with index 0..=len+1, value source, sink, erased/typed path) enumerated exhaustively, plus proptest histories over three vectors; non-trivial = the operation changes the sequence, uses a boundary or out-of-range index, or moves a value between vectors; distinct = distinct (configuration, pick sequence)",
            bound: format!("exhaustive one-step for len<={} on all layout/backend/constraint configurations{}; threshold sweep (shifted byte counts 120..136 around the 128-byte copy switch, lengths around 16/32); proptest {} histories x <= {} ops per configuration", l, if q { "" } else { ", exhaustive two-step (mutating operations) for len<=2 on the core configurations" }, hc, ho),
            plans: {
                let mut v = vec![
                    Plan { shape: Shape::Step, groups: G_LAYOUT | G_BACKEND | G_CONSTRAINT, random: None, spec: spec("C01", OPS_C01, MON_MODEL, l) },
                    Plan { shape: Shape::History, groups: G_LAYOUT | G_BACKEND | G_CONSTRAINT, random: Some((hc, ho)), spec: spec("C01", ops(&[OP_MOVE]) | OPS_C01 | ops(&[OP_DRAIN]), MON_MODEL, l) },
                    Plan { shape: Shape::Threshold, groups: G_LAYOUT | G_BACKEND, random: None, spec: spec("C01", OPS_C01, MON_MODEL, l) },
                ];
                if !q {
                    // two mutating operations in a row (reads after a mutation are covered by the post-state comparison)
                    v.push(Plan { shape: Shape::Step2, groups: G_CORE, random: None, spec: spec("C01", ops(&[OP_PUSH, OP_INSERT, OP_POP, OP_REMOVE, OP_SWAP_REMOVE, OP_CLEAR]), MON_MODEL, 2) });
                }
                v
            },
        }),
        "C02" => Some(PropPlan {
            rule: "case = (state, drain|splice, range in one of 9 RangeBounds forms incl. invalid and usize::MAX bounds, next/next_back string, per-item sink, replacement source and length, erased/typed) enumerated exhaustively in three sub-sweeps (forms x bounds; ranges x consumption strings; ranges x replacement kinds), plus proptest histories; non-trivial = non-empty range or replacement, or invalid range; distinct = distinct (configuration, pick sequence)",
            bound: format!("exhaustive one-step for len<={} on all configurations; proptest {} histories x <= {} ops per configuration", l, hc, ho),
            plans: vec![
                Plan { shape: Shape::Step, groups: G_LAYOUT | G_BACKEND | G_CONSTRAINT, random: None, spec: spec("C02", OPS_C02, MON_MODEL | MON_ITER, l) },
                Plan { shape: Shape::History, groups: G_LAYOUT | G_BACKEND, random: Some((hc, ho)), spec: spec("C02", OPS_C02 | ops(&[OP_PUSH, OP_INSERT, OP_REMOVE]), MON_MODEL | MON_ITER, l) },
            ],
        }),
        "C03" => Some(PropPlan {
            rule: "case = history of C01+C02 operations over three vectors exchanging elements (tracked types by identity, plain types by value, zero-sized by count), registry/ledger invariants after every step and at the end; non-trivial = at least one element changed owner (moved, extracted, cloned or destroyed by a range drop); distinct = distinct (configuration, pick sequence)",
            bound: format!("exhaustive one-step for len<={}; proptest {} histories x <= {} ops per configuration", l, hc, ho),
            plans: vec![
                Plan { shape: Shape::Step, groups: G_LAYOUT | G_BACKEND, random: None, spec: spec("C03", OPS_C01 | OPS_C02 | ops(&[OP_CLEAR]), MON_OWN, l.min(4)) },
                Plan { shape: Shape::History, groups: G_LAYOUT | G_BACKEND | G_CONSTRAINT, random: Some((hc, ho)), spec: spec("C03", OPS_C01 | OPS_C02, MON_OWN, l) },
                Plan { shape: Shape::Threshold, groups: G_LAYOUT | G_BACKEND, random: None, spec: spec("C03", OPS_C01, MON_OWN, l) },
            ],
        }),
        "C04" => Some(PropPlan {
            rule: "case = (ordered pair (vector element type A, offered/requested type B) from {u64, i64, f64, [u8;8], usize, u32, (), a second ZST, String, two tracked types with one layout}, vector length 0..=3, one of 22 checked entry points (push/insert of wrapper and raw values, splice with the j-th of k raw items foreign, swap for 6 handle pairings, vector/element/handle/wrapper/raw/lazy-clone downcasts, push of a removal handle of another vector, typeid/layout/size reports), index); oracle: A != B => panic or None with the vector unchanged (valid after splice) and the rejected tracked value destroyed once; A == B => success with the Vec-model contents; non-trivial = types differ but share size and alignment, or a handle downcast/swap; distinct = distinct (pair, pick sequence)",
            bound: "exhaustive: 121 ordered type pairs x len 0..=3 x 22 entry points x all indices".to_string(),
            plans: vec![Plan { shape: Shape::Grid, groups: G_PAIRS, random: None, spec: spec("C04", 0, MON_MODEL, 3) }],
        }),
        "C05" => Some(PropPlan {
            rule: "case = C01/C02/C08/C10 operation instances and histories run on the instrumented user-defined backends (guard zones, poison, relocate on every capacity change, quarantine) and on Heap under the instrumented global allocator; monitors: guard zones, quarantined blocks still poisoned, visible slots never poison/dead, backend lifecycle (build once with the element layout, never resized below live length, released once after elements); non-trivial = any operation that changes the sequence or the capacity; distinct = distinct (configuration, pick sequence)",
            bound: format!("exhaustive one-step for len<={}; proptest {} histories x <= {} ops per configuration", l, hc, ho),
            plans: vec![
                Plan { shape: Shape::Step, groups: G_LAYOUT | G_BACKEND, random: None, spec: spec("C05", OPS_C01 | OPS_C02 | OPS_CAP | ops(&[OP_CLONE, OP_CLONE_EMPTY]), MON_MEM, l.min(4)) },
                Plan { shape: Shape::History, groups: G_LAYOUT | G_BACKEND, random: Some((hc, ho)), spec: spec("C05", ops(&[OP_MOVE]) | OPS_C01 | OPS_C02 | OPS_CAP | ops(&[OP_CLONE, OP_CLONE_EMPTY, OP_BULK_PUSH, OP_DROP_NEW]), MON_MEM, l) },
                Plan { shape: Shape::Threshold, groups: G_LAYOUT | G_BACKEND, random: None, spec: spec("C05", OPS_C01, MON_MEM, l) },
            ],
        }),
        "C06" => {
            let mut sp = spec("C06", OPS_C01 | OPS_C02 | ops(&[OP_CLEAR, OP_DROP_NEW]), MON_VALID | MON_MODEL | MON_OWN | MON_MEM, l.min(3));
            sp.fault_enum = true;
            sp.allow_lies = true;
            let mut spc = sp.clone();
            spc.ops = OPS_C01;
            let mut sph = sp.clone();
            sph.ops = OPS_C01 | OPS_C02 | ops(&[OP_CLEAR, OP_LAZY, OP_DROP_NEW, OP_CLONE]);
            sph.max_len = l;
            Some(PropPlan {
                rule: "case = (state, operation instance of C01/C02/C08 incl. lazy-clone sources and splice replacement iterators); a fault-free run counts the N invocations of user code (element Drop, element Clone, replacement-iterator next) inside the operation, then N re-runs make the k-th invocation panic (k=1..N); separately replacement iterators whose len() is off by -2..=+2; oracle after the fault: no double drop, every visible element alive/intact/unique, guard zones intact, then the model is resynchronised from what is visible and a usability script (push, insert, remove, drain, clear, push, drop) runs under the ordinary Vec oracle; evaluations counts every execution; non-trivial = the injected fault fired inside the operation or the iterator lied; distinct = distinct (configuration, pick sequence)",
                bound: format!("exhaustive for len<={} (every k up to 64) on tracked layouts x Multi/Heap/GuardMem backends; proptest {} histories x <= {} ops with random fault points", l.min(3), hc, ho),
                plans: vec![
                    Plan { shape: Shape::Step, groups: G_FAULT, random: None, spec: sp },
                    Plan { shape: Shape::CloneThen, groups: G_FAULT, random: None, spec: spc },
                    Plan { shape: Shape::History, groups: G_FAULT, random: Some((hc, ho)), spec: sph },
                ],
            })
        }
        "C07" => {
            let mut sp = spec("C07", ops(&[OP_POP, OP_REMOVE, OP_SWAP_REMOVE, OP_DRAIN, OP_SPLICE]), MON_VALID | MON_OWN | MON_MODEL, l);
            sp.allow_forget = true;
            sp.sinks = &[Sink::Forget];
            let mut sph = sp.clone();
            sph.sinks = &[Sink::Forget, Sink::Drop, Sink::MovePush, Sink::Downcast];
            sph.ops = OPS_C01 | OPS_C02;
            Some(PropPlan {
                rule: "case = (state, pop|remove|swap_remove whose handle is forgotten) | (drain|splice forgotten after every next/next_back prefix, or with a yielded item forgotten), followed by a usability script (push, insert, remove, drain, clear, push, drop) and, in histories, by arbitrary further operations; oracle: elements before the affected index unchanged, every visible element alive and unique, nothing destroyed twice, leaked elements only from at/after the index; non-trivial = something was forgotten; distinct = distinct (configuration, pick sequence)",
                bound: format!("exhaustive one-step for len<={} on tracked layouts; proptest {} histories x <= {} ops", l, hc, ho),
                plans: vec![
                    Plan { shape: Shape::Step, groups: G_FAULT, random: None, spec: sp },
                    Plan { shape: Shape::History, groups: G_FAULT, random: Some((hc, ho)), spec: sph },
                ],
            })
        }
        "C14" => {
            let mut sp = spec("C14", ops(&[OP_ITER, OP_DRAIN, OP_SPLICE]), MON_ITER, l);
            sp.extra_calls = 3;
            let mut sph = sp.clone();
            sph.ops = ops(&[OP_ITER, OP_DRAIN, OP_SPLICE, OP_PUSH, OP_BULK_PUSH]);
            Some(PropPlan {
                rule: "case = (state, iterator kind {iter, iter_mut, &v/&mut v into_iter, typed iter/iter_mut/slice iter, cloned IterRef at every prefix, erased/typed drain and splice over every sub-range}, every next/next_back string of length n+3 (three calls past exhaustion)); oracle before every call: size_hint()==(r,Some(r)) and len()==r with r the model's remaining count; front items ascending, back items descending, None forever after exhaustion, clone and original advance independently; non-trivial = the string mixes both ends or continues past exhaustion; distinct = distinct (configuration, pick sequence)",
                bound: format!("exhaustive for len<={} (all 2^(n+3) strings); proptest {} histories x <= {} ops on larger vectors", l, hc, ho),
                plans: vec![
                    Plan { shape: Shape::Step, groups: G_CORE | G_STACK | G_CONSTRAINT, random: None, spec: sp },
                    Plan { shape: Shape::History, groups: G_LAYOUT | G_BACKEND, random: Some((hc, ho)), spec: sph },
                ],
            })
        }
        "C08" => Some(PropPlan {
            rule: "case = (source state incl. full fixed-capacity vectors, clone | clone_empty | clone_empty_in(every target backend flavour), one follow-up C01 operation on the original or on the clone); oracle: same type/layout/len, payloads equal, ids fresh, each source element cloned exactly once, storage separate, the other vector unchanged by the follow-up; non-trivial = len>=1, or backends differ, or fixed-capacity backend; distinct = distinct (configuration, pick sequence)",
            bound: format!("exhaustive for len<={} on every Cloneable configuration; proptest {} histories x <= {} ops", l, hc, ho),
            plans: vec![
                Plan { shape: Shape::CloneThen, groups: G_LAYOUT | G_BACKEND | G_CONSTRAINT, random: None, spec: spec("C08", OPS_C01, MON_CLONE | MON_MODEL | MON_OWN, l.min(4)) },
                Plan { shape: Shape::History, groups: G_LAYOUT | G_BACKEND | G_CONSTRAINT, random: Some((hc, ho)), spec: spec("C08", OPS_C01 | ops(&[OP_CLONE, OP_CLONE_EMPTY, OP_DRAIN, OP_BULK_PUSH]), MON_CLONE | MON_MODEL | MON_OWN, l) },
            ],
        }),
        "C09" => Some(PropPlan {
            rule: "case = (state, cloneable source kind {ElementRef, ElementMut, drained element, pop/remove/swap_remove handle}, chain depth 1..3, 0..2 LazyClone::clone copies, consumption of each lazy {push, insert, splice item, downcast, dropped unconsumed}); oracle: registry clone/drop counters (no clone before consumption, original cloned exactly once per consumption, nothing destroyed), destination/source sequences; non-trivial = >=1 consumption, or depth>=2, or non-reference source; distinct = distinct (configuration, pick sequence)",
            bound: format!("exhaustive for len<=2 on every Cloneable tracked configuration; proptest {} histories x <= {} ops", hc, ho),
            plans: vec![
                Plan { shape: Shape::Step, groups: G_LAYOUT | G_BACKEND | G_CONSTRAINT, random: None, spec: spec("C09", ops(&[OP_LAZY, OP_SPLICE]), MON_CLONE | MON_MODEL | MON_OWN, 2) },
                Plan { shape: Shape::History, groups: G_LAYOUT | G_BACKEND | G_CONSTRAINT, random: Some((hc, ho)), spec: spec("C09", ops(&[OP_LAZY, OP_PUSH, OP_INSERT, OP_REMOVE, OP_POP, OP_SPLICE, OP_CLONE, OP_CLONE_EMPTY, OP_DRAIN]), MON_CLONE | MON_MODEL | MON_OWN, l) },
                // lazy clones whose source or destination is a freshly cloned / clone_empty'd vector
                Plan { shape: Shape::CloneThen, groups: G_CORE | G_CONSTRAINT, random: None, spec: spec("C09", ops(&[OP_LAZY, OP_PUSH]), MON_CLONE | MON_MODEL | MON_OWN, 2) },
            ],
        }),
        "C10" => Some(PropPlan {
            rule: "case = ((len, capacity) state, reserve|reserve_exact|shrink_to_fit|shrink_to with arguments 0..=bound+5 and at the usize/isize overflow boundaries, erased/typed entry point), with_capacity at the same boundaries, 2^k-push amortisation runs, and capacity calls interleaved with C01 operations in proptest histories; non-trivial = the call must change capacity or sits on a no-op/overflow boundary; distinct = distinct (configuration, pick sequence)",
            bound: format!("exhaustive one-step for len<={} x capacity in len+{{0,1,3}}; amortisation up to 2^{} pushes; proptest {} histories x <= {} ops", l, 2 + if q { 14 } else { 16 }, hc, ho),
            plans: vec![
                Plan { shape: Shape::Step, groups: G_LAYOUT | G_BACKEND | G_CONSTRAINT, random: None, spec: spec("C10", OPS_CAP, MON_CAP, l) },
                Plan { shape: Shape::CapSpecial, groups: G_LAYOUT | G_BACKEND, random: None, spec: spec("C10", OPS_CAP, MON_CAP, if q { 14 } else { 16 }) },
                Plan { shape: Shape::History, groups: G_LAYOUT | G_BACKEND, random: Some((hc, ho)), spec: spec("C10", OPS_CAP | ops(&[OP_PUSH, OP_INSERT, OP_POP, OP_REMOVE, OP_BULK_PUSH, OP_CLEAR]), MON_CAP, l) },
                // every ordered pair of capacity calls / push / pop / clear from every small state
                Plan { shape: Shape::Step2, groups: G_RAW, random: None, spec: spec("C10", OPS_CAP | ops(&[OP_POP, OP_CLEAR]), MON_CAP, 1) },
            ],
        }),
        "C11" => Some(PropPlan {
            rule: "case = (generated Stack<SIZE> / StackN<N,SIZE> with SIZE and N on grids around multiples of the element size incl. N x size overflowing usize; construction, capacity formula, fill to capacity, refused push/insert beyond it, allocator window must stay empty) | (every C01/C02/C08 operation instance from every state up to capacity on stack-backed vectors: equality with the Vec model = behaviour of the heap backend, panic with contents unchanged beyond capacity, zero heap events); non-trivial = the case ends at or crosses the capacity boundary, or construction must panic; distinct = distinct (configuration, pick sequence)",
            bound: format!("294 generated (element, SIZE, N) grid points x fill levels; exhaustive one-step + clone-then-step for every state up to capacity on 9+ stack configurations; proptest {} histories x <= {} ops", hc, ho),
            plans: vec![
                Plan { shape: Shape::Grid, groups: G_GRID, random: None, spec: spec("C11", 0, MON_MODEL | MON_VALID | MON_NOALLOC | MON_CAP, 8) },
                Plan { shape: Shape::Step, groups: G_STACK, random: None, spec: spec("C11", OPS_C01 | OPS_C02 | ops(&[OP_CLONE, OP_CLONE_EMPTY]), MON_MODEL | MON_VALID | MON_NOALLOC | MON_CAP | MON_CLONE, 8) },
                Plan { shape: Shape::CloneThen, groups: G_STACK, random: None, spec: spec("C11", OPS_C01, MON_MODEL | MON_VALID | MON_NOALLOC | MON_CAP | MON_CLONE, 8) },
                Plan { shape: Shape::History, groups: G_STACK, random: Some((hc, ho)), spec: spec("C11", ops(&[OP_MOVE]) | OPS_C01 | OPS_C02 | ops(&[OP_CLONE, OP_CLONE_EMPTY, OP_DROP_NEW]), MON_MODEL | MON_VALID | MON_NOALLOC | MON_CAP | MON_CLONE, 8) },
                Plan { shape: Shape::Threshold, groups: G_STACK, random: None, spec: spec("C11", OPS_C01, MON_MODEL | MON_VALID | MON_NOALLOC | MON_CAP, 8) },
                // the vector value moves (inline storage travels with it) between two operations
                Plan { shape: Shape::Step2, groups: G_STACK, random: None, spec: spec("C11", ops(&[OP_MOVE, OP_PUSH, OP_POP]), MON_MODEL | MON_VALID | MON_NOALLOC | MON_CAP, 2) },
            ],
        }),
        "C19" => Some(PropPlan {
            rule: "stack-backend slice of the C01/C02/C11 case space, identical in both feature sets (driven by probes/c19.py, which compares the per-configuration digests)",
            bound: format!("grid + exhaustive one-step and clone-then-step for every state up to capacity + proptest {} histories x <= {} ops on every stack configuration", hc, ho),
            plans: vec![
                Plan { shape: Shape::Grid, groups: G_GRID, random: None, spec: spec("C19", 0, MON_MODEL | MON_VALID | MON_NOALLOC | MON_CAP, 8) },
                Plan { shape: Shape::Step, groups: G_STACK, random: None, spec: spec("C19", OPS_C01 | OPS_C02 | ops(&[OP_CLONE, OP_CLONE_EMPTY]), MON_MODEL | MON_VALID | MON_NOALLOC | MON_CAP | MON_CLONE | MON_OWN, 8) },
                Plan { shape: Shape::CloneThen, groups: G_STACK, random: None, spec: spec("C19", OPS_C01, MON_MODEL | MON_VALID | MON_NOALLOC | MON_CAP | MON_CLONE | MON_OWN, 8) },
                Plan { shape: Shape::History, groups: G_STACK, random: Some((hc, ho)), spec: spec("C19", ops(&[OP_MOVE]) | OPS_C01 | OPS_C02 | ops(&[OP_CLONE, OP_CLONE_EMPTY, OP_DROP_NEW]), MON_MODEL | MON_VALID | MON_NOALLOC | MON_CAP | MON_CLONE | MON_OWN, 8) },
                Plan { shape: Shape::Threshold, groups: G_STACK, random: None, spec: spec("C19", OPS_C01, MON_MODEL | MON_VALID | MON_NOALLOC | MON_CAP | MON_OWN, 8) },
            ],
        }),
        "C12" => Some(PropPlan {
            rule: "case = ((len, capacity) state, every view: as_bytes/as_bytes_mut/spare_bytes_mut/typed as_ptr/as_slice/as_mut_slice/spare_capacity_mut compared by address arithmetic with base + len x size; k values written into spare capacity (typed or byte view) + set_len) | (vector value moved to every admissible offset of a 64-byte aligned arena, storage pointer alignment checked by integer arithmetic when empty and after each push); non-trivial = alignment>8, or size not in {0,8}, or 0<len<cap, or non-zero placement offset; distinct = distinct (configuration, pick sequence)",
            bound: format!("exhaustive for len<={} x capacity classes on all layouts and backends incl. over-aligned elements on inline backends; every offset in one 64-byte period", l),
            plans: vec![
                Plan { shape: Shape::Step, groups: G_LAYOUT | G_BACKEND | G_RAW, random: None, spec: spec("C12", ops(&[OP_VIEWS, OP_WRITE_SPARE, OP_PUSH, OP_INSERT, OP_REMOVE, OP_POP, OP_CLEAR, OP_RESERVE, OP_SHRINK_FIT, OP_SHRINK_TO, OP_CLONE, OP_CLONE_EMPTY, OP_DRAIN]), MON_VIEW, l.min(4)) },
                Plan { shape: Shape::Placement, groups: G_LAYOUT | G_BACKEND | G_RAW | G_ALIGN, random: None, spec: spec("C12", ops(&[OP_VIEWS]), MON_VIEW, l) },
                Plan { shape: Shape::History, groups: G_LAYOUT | G_BACKEND, random: Some((hc, ho)), spec: spec("C12", ops(&[OP_MOVE]) | ops(&[OP_VIEWS, OP_WRITE_SPARE, OP_PUSH, OP_INSERT, OP_REMOVE, OP_POP, OP_CLEAR, OP_RESERVE, OP_RESERVE_EXACT, OP_SHRINK_FIT, OP_SHRINK_TO, OP_CLONE, OP_CLONE_EMPTY, OP_DRAIN, OP_SPLICE, OP_BULK_PUSH, OP_DROP_NEW]), MON_VIEW, l) },
            ],
        }),
        "C13" => Some(PropPlan {
            rule: "case = (state, index 0..=len+1, get/at/get_mut/at_mut erased and typed) | (write through one of 8 mutable views then read through one of 8 views) | (AnyValueMut::swap for every ordered pair of {ElementMut, removal handle, AnyValueWrapper, AnyValueRaw, drained element}); oracle: model payloads, value_typeid/size/bytes/address of every handle, exactly the two values exchanged; non-trivial = boundary index, writer/reader pairs, mixed handle kinds; distinct = distinct (configuration, pick sequence)",
            bound: format!("exhaustive one-step for len<={} on all layouts; proptest {} histories x <= {} ops", l, hc, ho),
            plans: vec![
                Plan { shape: Shape::Step, groups: G_LAYOUT | G_BACKEND, random: None, spec: spec("C13", ops(&[OP_GET, OP_MUTATE, OP_SWAP, OP_ITER]), MON_VIEW | MON_MODEL, l) },
                Plan { shape: Shape::History, groups: G_LAYOUT | G_BACKEND, random: Some((hc, ho)), spec: spec("C13", ops(&[OP_MOVE]) | ops(&[OP_GET, OP_MUTATE, OP_SWAP, OP_ITER, OP_PUSH, OP_REMOVE]), MON_VIEW | MON_MODEL, l) },
            ],
        }),
        "C17" => Some(PropPlan {
            rule: "case = (state, 1..3 into_raw_parts/from_raw_parts round trips each optionally through a field-wise RawParts::clone, then one C01 operation); oracle: no registry/allocator event across the round trip, parts report len/capacity/layout/typeid/drop/clone/handle of the vector, cloned parts equal, rebuilt vector behaves as the Vec model; non-trivial = len>=1 with spare capacity, or parts cloned, or >=2 round trips; distinct = distinct (configuration, pick sequence)",
            bound: format!("exhaustive for len<={} on Heap and Empty with every constraint set (with a capacity route before decomposing); proptest {} histories x <= {} ops interleaving round trips with all other operations", l, hc, ho),
            plans: vec![
                Plan { shape: Shape::RawThen, groups: G_RAW, random: None, spec: spec("C17", OPS_C01, MON_MODEL | MON_OWN | MON_ALLOC, l.min(3)) },
                Plan { shape: Shape::History, groups: G_RAW, random: Some((hc, ho)), spec: spec("C17", OPS_C01 | OPS_CAP | ops(&[OP_RAW_PARTS, OP_DRAIN, OP_CLONE, OP_CLONE_EMPTY, OP_BULK_PUSH]), MON_MODEL | MON_OWN | MON_ALLOC, l) },
            ],
        }),
        "C18" => Some(PropPlan {
            rule: "case = C01/C02/C10 operation instances and histories on heap-backed vectors under the instrumented global allocator, capacity requests at the isize/usize overflow boundaries; oracle: allocator log (valid layouts only, realloc/dealloc present the recorded layout, at most one live allocation per vector of sufficient size and alignment, none while capacity x size == 0, nothing left at the end); non-trivial = any operation on a heap vector that can allocate/reallocate/free or a boundary request; distinct = distinct (configuration, pick sequence)",
            bound: format!("exhaustive one-step for len<={}; with_capacity/reserve at all overflow boundaries; proptest {} histories x <= {} ops", l, hc, ho),
            plans: vec![
                Plan { shape: Shape::Step, groups: G_LAYOUT | G_BACKEND | G_RAW, random: None, spec: spec("C18", OPS_C01 | OPS_CAP | ops(&[OP_CLONE, OP_CLONE_EMPTY, OP_SPLICE]), MON_ALLOC, l.min(4)) },
                Plan { shape: Shape::CapSpecial, groups: G_LAYOUT | G_BACKEND, random: None, spec: spec("C18", OPS_CAP, MON_ALLOC, 8) },
                Plan { shape: Shape::Step2, groups: G_RAW, random: None, spec: spec("C18", OPS_CAP | ops(&[OP_POP, OP_CLEAR]), MON_ALLOC, 1) },
                Plan { shape: Shape::History, groups: G_LAYOUT | G_BACKEND, random: Some((hc, ho)), spec: spec("C18", OPS_C01 | OPS_C02 | OPS_CAP | ops(&[OP_CLONE, OP_CLONE_EMPTY, OP_BULK_PUSH, OP_DROP_NEW]), MON_ALLOC, l) },
            ],
        }),
        _ => None,
    }
}

//! Element-type family, identity registry and fault points (DESIGN.md §2.2).
//!
//! Tracked (`Tr*`) elements carry an instance id (low bytes) followed by canary bytes that
//! are a fixed function of the id.  A thread-local registry maps id -> {alive, payload,
//! clone origin, clone/drop counters}.  Plain (`Pl*`) elements are `Copy` without drop glue
//! and encode their payload directly.  The poison byte 0xA5 repeated is never a valid id.

use std::cell::UnsafeCell;

pub const POISON: u8 = 0xA5;

#[derive(Clone, Copy, Debug, Default)]
pub struct Entry {
    pub alive: bool,
    pub payload: u32,
    pub origin: u32,
    pub cloned: u32,
    pub dropped: u32,
}

#[derive(Default)]
pub struct Registry {
    pub entries: Vec<Entry>, // index = id (entry 0 unused)
    pub live: usize,
    pub zst_live: i64,
    pub zst_created: u64,
    pub zst_dropped: u64,
    pub zst_cloned: u64,
    pub clone_calls: u64,
    pub drop_calls: u64,
    // sticky flags
    pub double_drop: bool,
    pub bad_drop: bool,       // drop of bytes that never were an element (poison/garbage)
    pub clone_of_dead: bool,  // clone() invoked on dead/garbage element
    pub canary_broken: bool,  // drop/clone saw an element with a broken canary
    pub detail: Option<String>,
    // fault injection: Some(k) -> the k-th (1-based) user-code invocation inside a library call panics
    pub fault_at: Option<u32>,
    pub fault_fired: bool,
    pub user_calls: u32, // Drop + Clone + iterator-next invocations inside library calls
    pub in_lib: bool,
    pub id_limit: u32, // ids > limit are refused (small id spaces)
}

thread_local! {
    static REG: UnsafeCell<Registry> = UnsafeCell::new(Registry::default());
}

/// Short, non-reentrant access to the registry. Never hold the reference across a library call.
#[inline]
pub fn reg<R>(f: impl FnOnce(&mut Registry) -> R) -> R {
    REG.with(|r| unsafe { f(&mut *r.get()) })
}

pub fn reset_registry() {
    reg(|r| {
        r.entries.clear();
        r.entries.push(Entry::default());
        r.live = 0;
        r.zst_live = 0;
        r.zst_created = 0;
        r.zst_dropped = 0;
        r.zst_cloned = 0;
        r.clone_calls = 0;
        r.drop_calls = 0;
        r.double_drop = false;
        r.bad_drop = false;
        r.clone_of_dead = false;
        r.canary_broken = false;
        r.detail = None;
        r.fault_at = None;
        r.fault_fired = false;
        r.user_calls = 0;
        r.in_lib = false;
    });
}

/// Payload used for instances whose `make`/`clone` had no sane source.
pub const GARBAGE_PAYLOAD: u32 = 0xDEAD_BEEF;

/// Called by every user-code callback (Drop, Clone, replacement iterator next).
/// Counts invocations made inside library calls and fires the injected fault.
#[inline]
pub fn user_code_tick(what: &'static str) {
    // user code that panics while another panic is unwinding aborts the process by language
    // rule, whatever the library does: never inject there (and do not count the invocation)
    if std::thread::panicking() {
        return;
    }
    let fire = reg(|r| {
        if !r.in_lib {
            return false;
        }
        r.user_calls += 1;
        if let Some(k) = r.fault_at {
            if !r.fault_fired && r.user_calls == k {
                r.fault_fired = true;
                return true;
            }
        }
        false
    });
    if fire {
        std::panic::panic_any(InjectedFault(what));
    }
}

/// Panic payload of an injected fault.
pub struct InjectedFault(pub &'static str);

fn is_poison_id(id: u32, idbytes: usize) -> bool {
    let mut p = 0u32;
    for i in 0..idbytes {
        p |= (POISON as u32) << (8 * i);
    }
    id == p
}

fn new_id(payload: u32, origin: u32, idbytes: usize) -> u32 {
    let _s = crate::alloc::suspend();
    reg(|r| {
        let mut id = r.entries.len() as u32;
        if is_poison_id(id, idbytes) {
            // burn the poison id
            r.entries.push(Entry::default());
            id += 1;
        }
        let max = if idbytes >= 4 { u32::MAX } else { (1u32 << (8 * idbytes)) - 1 };
        if id > max {
            // id space exhausted: the generators bound creations so this is a harness bug
            panic!("harness: id space of {} byte(s) exhausted", idbytes);
        }
        r.entries.push(Entry { alive: true, payload, origin, cloned: 0, dropped: 0 });
        r.live += 1;
        id
    })
}

#[inline]
fn canary(id: u32, i: usize) -> u8 {
    // never equals POISON for all positions simultaneously; cheap mix
    let x = id.wrapping_mul(0x9E37_79B1).rotate_left((i as u32) & 31) ^ (i as u32).wrapping_mul(0x85EB_CA6B);
    (x >> 24) as u8 ^ (x as u8)
}

/// What the bytes of one element slot decode to.
#[derive(Clone, Copy, Debug, PartialEq, Eq)]
pub struct Seen {
    /// instance id (tracked types), 0 for plain/ZST
    pub id: u32,
    /// payload if the slot holds a live, intact element
    pub payload: Option<u32>,
    pub slot: Slot,
}

#[derive(Clone, Copy, Debug, PartialEq, Eq)]
pub enum Slot {
    Live,
    /// a destroyed element is visible
    Dead,
    /// uninitialised or moved-out slot (harness poison)
    Poison,
    /// bytes of two different elements / partially overwritten
    Torn,
    ZeroId,
    UnknownId,
}

impl Seen {
    pub fn why_bad(&self) -> &'static str {
        match self.slot {
            Slot::Live => "",
            Slot::Dead => "dead(destroyed element)",
            Slot::Poison => "poison(uninitialised/moved-out slot)",
            Slot::Torn => "torn(canary broken)",
            Slot::ZeroId => "zero-id",
            Slot::UnknownId => "unknown-id",
        }
    }
}

/// A second element type with the layout, destructor and Clone of `T` but another TypeId
/// (destination of `clone_from` across element types).
#[repr(transparent)]
#[derive(Clone)]
pub struct Alt<T>(pub T);

pub trait Elem: 'static + Clone + Sized + Send + Sync {
    const NAME: &'static str;
    const TRACKED: bool;
    /// element Clone is harness code that bumps the registry's clone counter
    const COUNTS_CLONES: bool = Self::TRACKED;
    const SIZE: usize = std::mem::size_of::<Self>();
    const ALIGN: usize = std::mem::align_of::<Self>();
    const ZST: bool = std::mem::size_of::<Self>() == 0;
    /// number of distinct ids/payloads representable is 2^(8*IDBYTES) (4 = unbounded for our purposes)
    const IDBYTES: usize;

    fn make(payload: u32) -> Self;
    /// payload as the model must expect it (plain small types truncate)
    fn norm(payload: u32) -> u32;
    /// decode a slot from raw (possibly unaligned) bytes; `b.len() == SIZE`
    fn see(b: &[u8]) -> Seen;
    /// payload of a value we own (typed)
    fn payload(&self) -> Option<u32> {
        let b = unsafe { std::slice::from_raw_parts(self as *const Self as *const u8, Self::SIZE) };
        Self::see(b).payload
    }
    fn id(&self) -> u32 {
        let b = unsafe { std::slice::from_raw_parts(self as *const Self as *const u8, Self::SIZE) };
        Self::see(b).id
    }
}

fn see_tracked(b: &[u8], idbytes: usize) -> Seen {
    let mut id = 0u32;
    for i in 0..idbytes.min(4) {
        id |= (b[i] as u32) << (8 * i);
    }
    if id == 0 {
        return Seen { id, payload: None, slot: Slot::ZeroId };
    }
    if is_poison_id(id, idbytes) && b.iter().all(|&x| x == POISON) {
        return Seen { id, payload: None, slot: Slot::Poison };
    }
    for i in idbytes..b.len() {
        if b[i] != canary(id, i) {
            return Seen { id, payload: None, slot: Slot::Torn };
        }
    }
    reg(|r| match r.entries.get(id as usize) {
        None => Seen { id, payload: None, slot: Slot::UnknownId },
        Some(e) if !e.alive => Seen { id, payload: None, slot: Slot::Dead },
        Some(e) => Seen { id, payload: Some(e.payload), slot: Slot::Live },
    })
}

macro_rules! tracked {
    ($name:ident, $size:expr, $align:expr, $idbytes:expr) => {
        #[repr(C, align($align))]
        pub struct $name {
            bytes: [u8; $size],
        }
        impl $name {
            fn from_id(id: u32) -> Self {
                let mut bytes = [0u8; $size];
                for i in 0..$idbytes {
                    bytes[i] = (id >> (8 * i)) as u8;
                }
                for i in $idbytes..$size {
                    bytes[i] = canary(id, i);
                }
                Self { bytes }
            }
        }
        impl Elem for $name {
            const NAME: &'static str = stringify!($name);
            const TRACKED: bool = true;
            const IDBYTES: usize = $idbytes;
            fn make(payload: u32) -> Self {
                Self::from_id(new_id(payload, 0, $idbytes))
            }
            fn norm(p: u32) -> u32 {
                p
            }
            fn see(b: &[u8]) -> Seen {
                see_tracked(b, $idbytes)
            }
        }
        impl Clone for $name {
            fn clone(&self) -> Self {
                let _s = crate::alloc::suspend();
                user_code_tick("clone");
                let seen = see_tracked(&self.bytes, $idbytes);
                let payload = reg(|r| {
                    r.clone_calls += 1;
                    match seen.payload {
                        Some(p) => {
                            r.entries[seen.id as usize].cloned += 1;
                            p
                        }
                        None => {
                            r.clone_of_dead = true;
                            if r.detail.is_none() {
                                r.detail = Some(format!("clone() called on {} slot id={}", seen.why_bad(), seen.id));
                            }
                            GARBAGE_PAYLOAD
                        }
                    }
                });
                Self::from_id(new_id(payload, seen.id, $idbytes))
            }
        }
        impl Drop for $name {
            fn drop(&mut self) {
                let _s = crate::alloc::suspend();
                let seen = see_tracked(&self.bytes, $idbytes);
                reg(|r| {
                    r.drop_calls += 1;
                    match seen.slot {
                        Slot::Live => {
                            let e = &mut r.entries[seen.id as usize];
                            e.dropped += 1;
                            e.alive = false;
                            r.live -= 1;
                        }
                        Slot::Dead => {
                            r.entries[seen.id as usize].dropped += 1;
                            r.double_drop = true;
                            if r.detail.is_none() {
                                r.detail = Some(format!("element id={} destroyed twice", seen.id));
                            }
                        }
                        _ => {
                            r.bad_drop = true;
                            if r.detail.is_none() {
                                r.detail = Some(format!("destructor ran on {} slot id={}", seen.why_bad(), seen.id));
                            }
                        }
                    }
                });
                // the destructor "ran" (state updated) before an injected fault unwinds out of it
                user_code_tick("drop");
            }
        }
    };
}

macro_rules! tracked_zst {
    ($name:ident, $align:expr) => {
        #[repr(C, align($align))]
        pub struct $name {
            bytes: [u8; 0],
        }
        impl Elem for $name {
            const NAME: &'static str = stringify!($name);
            const TRACKED: bool = true;
            const IDBYTES: usize = 0;
            fn make(_payload: u32) -> Self {
                reg(|r| {
                    r.zst_live += 1;
                    r.zst_created += 1;
                });
                Self { bytes: [] }
            }
            fn norm(_p: u32) -> u32 {
                0
            }
            fn see(_b: &[u8]) -> Seen {
                Seen { id: 0, payload: Some(0), slot: Slot::Live }
            }
        }
        impl Clone for $name {
            fn clone(&self) -> Self {
                let _s = crate::alloc::suspend();
                user_code_tick("clone");
                reg(|r| {
                    r.clone_calls += 1;
                    r.zst_cloned += 1;
                    r.zst_live += 1;
                    r.zst_created += 1;
                });
                Self { bytes: [] }
            }
        }
        impl Drop for $name {
            fn drop(&mut self) {
                let _s = crate::alloc::suspend();
                reg(|r| {
                    r.drop_calls += 1;
                    r.zst_dropped += 1;
                    r.zst_live -= 1;
                    if r.zst_live < 0 {
                        r.double_drop = true;
                        if r.detail.is_none() {
                            r.detail = Some("more zero-sized elements destroyed than created".into());
                        }
                    }
                });
                user_code_tick("drop");
            }
        }
    };
}

macro_rules! plain {
    ($name:ident, $size:expr, $align:expr) => {
        #[repr(C, align($align))]
        #[derive(Clone, Copy)]
        pub struct $name {
            bytes: [u8; $size],
        }
        impl Elem for $name {
            const NAME: &'static str = stringify!($name);
            const TRACKED: bool = false;
            const IDBYTES: usize = if $size < 4 { $size } else { 4 };
            #[allow(unused_comparisons, clippy::absurd_extreme_comparisons)]
            fn make(payload: u32) -> Self {
                let p = Self::norm(payload);
                let mut bytes = [0u8; $size];
                let n = if $size < 4 { $size } else { 4 };
                for i in 0..n {
                    bytes[i] = (p >> (8 * i)) as u8;
                }
                for i in n..$size {
                    bytes[i] = canary(p, i);
                }
                Self { bytes }
            }
            fn norm(p: u32) -> u32 {
                if $size == 0 {
                    0
                } else if $size < 4 {
                    // avoid the all-poison encoding: fold it onto a neighbour
                    let m = p & ((1u32 << (8 * $size)) - 1);
                    if is_poison_id(m, $size) {
                        m ^ 1
                    } else {
                        m
                    }
                } else {
                    p
                }
            }
            fn see(b: &[u8]) -> Seen {
                if $size == 0 {
                    return Seen { id: 0, payload: Some(0), slot: Slot::Live };
                }
                let n = if $size < 4 { $size } else { 4 };
                let mut p = 0u32;
                for i in 0..n {
                    p |= (b[i] as u32) << (8 * i);
                }
                if b.iter().all(|&x| x == POISON) {
                    return Seen { id: 0, payload: None, slot: Slot::Poison };
                }
                for i in n..b.len() {
                    if b[i] != canary(p, i) {
                        return Seen { id: 0, payload: None, slot: Slot::Torn };
                    }
                }
                Seen { id: 0, payload: Some(p), slot: Slot::Live }
            }
        }
    };
}

/// No drop glue, but a hand-written Clone that counts (a bitwise copy is *not* a clone).
macro_rules! cloney {
    ($name:ident, $size:expr, $align:expr) => {
        #[repr(C, align($align))]
        pub struct $name {
            bytes: [u8; $size],
        }
        impl Elem for $name {
            const NAME: &'static str = stringify!($name);
            const TRACKED: bool = false;
            const COUNTS_CLONES: bool = true;
            const IDBYTES: usize = if $size < 4 { $size } else { 4 };
            fn make(payload: u32) -> Self {
                let p = Self::norm(payload);
                let mut bytes = [0u8; $size];
                let n = if $size < 4 { $size } else { 4 };
                for i in 0..n {
                    bytes[i] = (p >> (8 * i)) as u8;
                }
                for i in n..$size {
                    bytes[i] = canary(p, i);
                }
                Self { bytes }
            }
            fn norm(p: u32) -> u32 {
                if $size == 0 {
                    0
                } else {
                    p
                }
            }
            fn see(b: &[u8]) -> Seen {
                if $size == 0 {
                    return Seen { id: 0, payload: Some(0), slot: Slot::Live };
                }
                let mut p = 0u32;
                for i in 0..4 {
                    p |= (b[i] as u32) << (8 * i);
                }
                if b.iter().all(|&x| x == POISON) {
                    return Seen { id: 0, payload: None, slot: Slot::Poison };
                }
                for i in 4..b.len() {
                    if b[i] != canary(p, i) {
                        return Seen { id: 0, payload: None, slot: Slot::Torn };
                    }
                }
                Seen { id: 0, payload: Some(p), slot: Slot::Live }
            }
        }
        impl Clone for $name {
            fn clone(&self) -> Self {
                let _s = crate::alloc::suspend();
                user_code_tick("clone");
                reg(|r| r.clone_calls += 1);
                Self { bytes: self.bytes }
            }
        }
    };
}
cloney!(Cc0, 0, 1);
cloney!(Cc8, 8, 8);
cloney!(Cc24, 24, 8);

// size, align, idbytes
tracked_zst!(Tr0, 1);
tracked_zst!(Tr0a16, 16);
tracked!(Tr1, 1, 1, 1);
tracked!(Tr2, 2, 2, 2);
tracked!(Tr3, 3, 1, 3);
tracked!(Tr8, 8, 8, 4);
tracked!(Tr12, 12, 4, 4);
tracked!(Tr16, 16, 16, 4);
tracked!(Tr24, 24, 8, 4);
tracked!(Tr64, 64, 64, 4);
tracked!(Tr160, 160, 32, 4);
// power-of-two sizes larger than their alignment
tracked!(Tr4a1, 4, 1, 4);
tracked!(Tr16a4, 16, 4, 4);
tracked!(Tr32a8, 32, 8, 4);
// a second tracked type with the layout of Tr8 (C04: same layout, different type)
tracked!(TrB8, 8, 8, 4);

plain!(Pl0, 0, 1);
plain!(Pl1, 1, 1);
plain!(Pl2, 2, 2);
plain!(Pl3, 3, 1);
plain!(Pl8, 8, 8);
plain!(Pl12, 12, 4);
plain!(Pl16, 16, 16);
plain!(Pl24, 24, 8);
plain!(Pl64, 64, 64);
plain!(Pl160, 160, 32);
plain!(Pl2a1, 2, 1);
plain!(Pl8a2, 8, 2);
plain!(Pl64a8, 64, 8);

/// Sticky registry flags as a violation description, if any is set.
pub fn registry_flags() -> Option<String> {
    reg(|r| {
        let mut v = Vec::new();
        if r.double_drop {
            v.push("double-drop");
        }
        if r.bad_drop {
            v.push("drop-of-non-element");
        }
        if r.clone_of_dead {
            v.push("clone-of-dead-or-garbage");
        }
        if v.is_empty() {
            None
        } else {
            Some(format!("{} ({})", v.join("+"), r.detail.clone().unwrap_or_default()))
        }
    })
}

//! Case shapes: how a sequence of picks becomes (state, operations). One decoder serves the
//! bounded-exhaustive, the proptest and the fuzz driver.

use std::fmt::Write;

use crate::backend::{Backend, Flavour};
use crate::choices::Ch;
use crate::elem::Elem;
use crate::ops_misc::CapOp;
use crate::ops_range::*;
use crate::ops_remove::RemKind;
use crate::tset::TSet;
use crate::world::*;

#[derive(Clone, Copy, Debug, PartialEq, Eq)]
pub enum Shape {
    /// one operation from every small state (exhaustive driver)
    Step,
    /// two operations from every small state
    Step2,
    /// a generated history over three vectors (proptest / fuzz driver)
    History,
    /// clone / clone_empty / clone_empty_in, then one operation on the original or on the clone
    CloneThen,
    /// 1..=3 raw-parts round trips (optionally through RawParts::clone), then one operation
    RawThen,
    /// with_capacity at the boundaries; growth amortisation over 2^k pushes
    CapSpecial,
    /// the vector value moved to every admissible offset of an aligned arena (C12)
    Placement,
    /// generated Stack/StackN grid entry (C11); handled by `grid::grid_run`
    Grid,
    /// states whose shifted byte count sits around the 128-byte switch of the byte-copy helper
    /// and around power-of-two capacities
    Threshold,
}

/// words per operation record in history mode
pub const RECORD: usize = 12;

pub struct CaseOut {
    pub violation: Option<Violation>,
    pub desync: Option<Violation>,
    pub nontrivial: bool,
    pub classes: Vec<&'static str>,
    pub avoided: u32,
    /// additional executions inside this case (fault enumeration re-runs)
    pub extra_evals: u32,
    pub op_panicked: bool,
}

/// map a pick onto an argument: small values, then the two values at the top of the range
fn edge_val(k: usize, small: usize) -> usize {
    if k <= small {
        k
    } else if k == small + 1 {
        usize::MAX - 1
    } else {
        usize::MAX
    }
}

impl<C: Cfg> World<C> {
    fn enabled_ops(&self) -> Vec<u32> {
        (0..OP_COUNT).filter(|o| self.spec.ops & (1 << o) != 0).filter(|&o| self.op_supported(o)).collect()
    }

    fn op_supported(&self, o: u32) -> bool {
        match o {
            OP_CLONE | OP_LAZY => <C::Tr as TSet>::CLONEABLE,
            OP_RESERVE | OP_RESERVE_EXACT | OP_SHRINK_FIT | OP_SHRINK_TO => C::M::RESIZABLE,
            OP_RAW_PARTS => C::M::RAWPARTS,
            _ => true,
        }
    }

    /// Decode and run one operation. `hist`: history mode (three slots, random arguments).
    pub fn step(&mut self, ch: &mut Ch, hist: bool, tr: &mut String) {
        self.step_on(ch, hist, None, tr)
    }

    pub fn step_on(&mut self, ch: &mut Ch, hist: bool, slots: Option<(usize, usize)>, tr: &mut String) {
        let ops = self.enabled_ops();
        if ops.is_empty() {
            let _ = write!(tr, "[no applicable operation for this configuration]");
            return;
        }
        let op = ops[ch.pick(ops.len() as u32) as usize];
        let (v, w) = if let Some(vw) = slots {
            vw
        } else if hist {
            let v = ch.pick(3) as usize;
            let w = (v + 1 + ch.pick(2) as usize) % 3;
            (v, w)
        } else {
            (0usize, 1usize)
        };
        let len = self.model[v].len();
        let wlen = self.model[w].len();
        let ctx: &'static str = OP_NAMES[op as usize];
        self.step_no += 1;
        let live = crate::world::trace_live();
        let tr_start = tr.len();
        if live {
            eprintln!("  step {}: {} v{} (len {}) w{} (len {}) ...", self.step_no, ctx, v, len, w, wlen);
        }
        match op {
            OP_PUSH | OP_INSERT => {
                let at = if op == OP_INSERT { Some(ch.pick(len as u32 + 2) as usize) } else { None };
                let mut srcs: Vec<Src> = Vec::new();
                srcs.extend_from_slice(SRC_BASIC);
                srcs.extend_from_slice(SRC_HANDLES);
                if <C::Tr as TSet>::CLONEABLE {
                    srcs.extend_from_slice(SRC_LAZY);
                }
                let src = srcs[ch.pick(srcs.len() as u32) as usize];
                let (mut j, mut depth, mut back) = (0usize, 1u32, false);
                match src {
                    Src::HandleRemove | Src::HandleSwapRemove => j = ch.pick(wlen as u32 + 1) as usize,
                    Src::Drained => {
                        j = ch.pick(wlen as u32 + 1) as usize;
                        depth = 1 + ch.pick(2);
                        back = ch.flip();
                    }
                    Src::LazyRef | Src::LazyMut | Src::LazyDrained | Src::LazyHandle => {
                        j = ch.pick(wlen.max(1) as u32) as usize;
                        depth = 1 + ch.pick(3);
                    }
                    _ => {}
                }
                self.do_insert(v, at, src, w, j, depth, back, tr);
            }
            OP_POP | OP_REMOVE | OP_SWAP_REMOVE => {
                let kind = match op {
                    OP_POP => RemKind::Pop,
                    OP_REMOVE => RemKind::Remove,
                    _ => RemKind::SwapRemove,
                };
                let idx = if op == OP_POP { len.saturating_sub(1) } else { ch.pick(len as u32 + 2) as usize };
                let sinks = self.spec.sinks;
                let sink = sinks[ch.pick(sinks.len() as u32) as usize];
                let ins_at = if sink == Sink::MoveInsert { ch.pick(wlen as u32 + 2) as usize } else { 0 };
                self.do_remove(kind, v, idx, sink, w, ins_at, tr);
            }
            OP_CLEAR => {
                let typed = ch.flip();
                self.do_clear(v, typed, tr);
            }
            OP_GET => {
                let idx = ch.pick(len as u32 + 2) as usize;
                let view = ch.pick(19);
                self.do_get(v, idx, view, tr);
            }
            OP_ITER => {
                let kind = ch.pick(10);
                let extra = self.spec.extra_calls;
                let mut calls: Vec<bool> = Vec::new();
                if hist || self.spec.mon & MON_ITER == 0 {
                    // three canonical patterns (+ random ones in histories)
                    let n = len + extra;
                    match ch.pick(if hist { 4 } else { 3 }) {
                        0 => calls = vec![false; n],
                        1 => calls = vec![true; n],
                        2 => calls = (0..n).map(|k| k % 2 == 1).collect(),
                        _ => {
                            for _ in 0..n.min(24) {
                                calls.push(ch.flip());
                            }
                        }
                    }
                } else {
                    // every next/next_back string of length len + extra
                    for _ in 0..len + extra {
                        calls.push(ch.flip());
                    }
                }
                let clone_at = if kind == 7 { ch.pick(calls.len() as u32 + 1) as usize } else { 0 };
                // nth / nth_back (skip 0..=len+1 items) on one of the calls, and an adaptor at the end
                let mut skips: Vec<u8> = vec![0; calls.len()];
                let mut finish = 0;
                if kind != 7 {
                    if !calls.is_empty() && ch.flip() {
                        let pos = ch.pick(calls.len().min(3) as u32) as usize;
                        skips[pos] = (1 + ch.pick(len.min(200) as u32 + 2)).min(250) as u8;
                    }
                    finish = ch.pick(4);
                }
                self.do_iter_ext(v, kind, &calls, clone_at, &skips, finish, tr);
            }
            OP_DRAIN | OP_SPLICE => {
                let rop = self.plan_range(ch, op == OP_SPLICE, hist, v, w);
                self.do_range(&rop, tr);
            }
            OP_CLONE => {
                let how = ch.pick(5);
                self.do_clone(v, w, how, tr);
            }
            OP_CLONE_EMPTY => {
                let fls = C::M::flavours(C::T::SIZE);
                let k = ch.pick(fls.len() as u32 + 1) as usize;
                let fl = if k == fls.len() { None } else { Some(fls[k]) };
                self.do_clone_empty(v, w, fl, tr);
            }
            OP_RESERVE | OP_RESERVE_EXACT | OP_SHRINK_FIT | OP_SHRINK_TO => {
                let cop = match op {
                    OP_RESERVE => CapOp::Reserve,
                    OP_RESERVE_EXACT => CapOp::ReserveExact,
                    OP_SHRINK_FIT => CapOp::ShrinkToFit,
                    _ => CapOp::ShrinkTo,
                };
                let n = if cop == CapOp::ShrinkToFit { 0 } else { self.cap_arg(ch.pick(self.cap_arg_count()) as usize, len) };
                let typed = ch.flip();
                self.do_capacity(cop, v, n, typed, tr);
            }
            OP_RAW_PARTS => {
                let cl = ch.flip();
                self.do_raw_parts(v, cl, tr);
            }
            OP_WRITE_SPARE => {
                let k = ch.pick(4) as usize;
                let typed = ch.flip();
                self.do_write_spare(v, k, typed, tr);
            }
            OP_MUTATE => {
                let idx = ch.pick(len.max(1) as u32) as usize;
                let writer = ch.pick(8);
                self.do_mutate(v, idx, writer, tr);
                if !self.dead() && len > 0 {
                    // read back through an independently chosen view
                    let _ = write!(tr, " then ");
                    let view = ch.pick(12);
                    self.do_get(v, idx % len, view, tr);
                }
            }
            OP_MOVE => {
                let how = ch.pick(2);
                self.do_move(v, w, how, tr);
            }
            OP_SWAP => {
                let i = ch.pick(len.max(1) as u32) as usize;
                let j = ch.pick(wlen.max(1) as u32) as usize;
                let ka = ch.pick(5);
                let kb = ch.pick(5);
                self.do_swap(v, i, ka, w, j, kb, tr);
            }
            OP_LAZY => {
                let kind = ch.pick(7);
                let j = ch.pick(wlen.max(1) as u32) as usize;
                let depth = 1 + ch.pick(3);
                let copies = ch.pick(3) as usize; // LazyClone::clone copies
                let mut consume = Vec::with_capacity(copies + 1);
                for _ in 0..=copies {
                    consume.push(ch.pick(6) as u8);
                }
                self.do_lazy(v, w, kind, j, depth, &consume, tr);
            }
            OP_VIEWS => self.do_views(v, tr),
            OP_BULK_PUSH => {
                let n = 1 + ch.pick(300) as usize;
                self.do_bulk_push(v, n, tr);
            }
            OP_DROP_NEW => {
                let fls = C::M::flavours(C::T::SIZE);
                let fl = fls[ch.pick(fls.len() as u32) as usize];
                self.do_drop_new(v, fl, tr);
            }
            _ => {
                let _ = write!(tr, "<unsupported op {}>", ctx);
            }
        }
        let _ = write!(tr, "; ");
        if live {
            eprintln!("     done: {}", &tr[tr_start..]);
        }
        if self.fault_mode && crate::elem::reg(|r| r.fault_fired) {
            self.after_fault(ctx, tr);
            return;
        }
        self.check_state(ctx);
        if self.spec.mon & MON_VIEW != 0 && op != OP_VIEWS && !self.dead() {
            // view coherence is re-examined after every operation
            let mut quiet = String::new();
            let nt = self.nontrivial;
            self.do_views(v, &mut quiet);
            if w != v && self.vecs[w].is_some() && !self.dead() {
                self.do_views(w, &mut quiet);
            }
            self.nontrivial = nt || self.nontrivial;
        }
        if self.forgot && !self.dead() && !hist {
            // after a leak the vector must stay fully usable
            self.forgot = false;
            self.nontrivial = true;
            let variant = ch.pick(2);
            self.usability_script(variant, tr);
        }
    }

    pub fn plan_range(&mut self, ch: &mut Ch, splice: bool, hist: bool, v: usize, w: usize) -> RangeOp {
        let len = self.model[v].len();
        let allow_forget = self.spec.allow_forget;
        let mut op = RangeOp {
            v,
            form: 0,
            x: 0,
            y: 0,
            typed: false,
            calls: Vec::new(),
            sinks: Vec::new(),
            w,
            forget_iter: false,
            splice,
            repl_kind: ReplKind::Wrapper,
            repl_len: 0,
            wa: 0,
            lie: 0,
            skip: None,
        };
        let item_sinks: &[ItemSink] = if allow_forget { &[ItemSink::Drop, ItemSink::Downcast, ItemSink::MovePush, ItemSink::Forget] } else { &[ItemSink::Drop, ItemSink::Downcast, ItemSink::MovePush, ItemSink::DowncastUnchecked] };
        if hist {
            // random: mostly valid ranges, every form, random consumption
            op.typed = ch.pick(3) == 0;
            let invalid = ch.pick(10) == 0;
            if invalid {
                op.form = ch.pick(N_FORMS);
                op.x = edge_val(ch.pick(len as u32 + 5) as usize, len + 2);
                op.y = edge_val(ch.pick(len as u32 + 5) as usize, len + 2);
            } else {
                let a = ch.pick(len as u32 + 1) as usize;
                let b = a + ch.pick((len - a) as u32 + 1) as usize;
                // express (a,b) in a form that can represent it
                let mut forms: Vec<u32> = vec![0];
                if b >= 1 {
                    forms.push(1);
                }
                if a == 0 {
                    forms.push(2);
                    if b >= 1 {
                        forms.push(3);
                    }
                }
                if b == len {
                    forms.push(4);
                    if a == 0 {
                        forms.push(5);
                    }
                }
                if a >= 1 {
                    forms.push(6);
                    if b >= 1 {
                        forms.push(7);
                    }
                    if b == len {
                        forms.push(8);
                    }
                }
                op.form = forms[ch.pick(forms.len() as u32) as usize];
                let incl_end = matches!(op.form, 1 | 3 | 7);
                let excl_start = matches!(op.form, 6 | 7 | 8);
                op.x = if excl_start { a - 1 } else { a };
                op.y = if incl_end { b - 1 } else { b };
            }
            let n = oracle_range(bounds_of(op.form, op.x, op.y), len).map(|(a, b)| b - a).unwrap_or(0);
            let how = ch.pick(4);
            let ncalls = match how {
                0 => 0,
                1 => n + 1,
                _ => ch.pick(n as u32 + 3) as usize,
            }
            .min(64);
            let dir = ch.pick(3);
            for _ in 0..ncalls {
                op.calls.push(match dir {
                    0 => false,
                    1 => true,
                    _ => ch.flip(),
                });
                op.sinks.push(item_sinks[ch.pick(item_sinks.len() as u32) as usize]);
            }
            op.forget_iter = allow_forget && ch.pick(4) == 0;
            if ch.pick(5) == 0 {
                op.skip = Some(ch.pick(n as u32 + 2) as usize);
            }
            if splice {
                op.repl_kind = REPL_KINDS[ch.pick(4) as usize];
                op.repl_len = ch.pick(6) as usize;
                op.wa = ch.pick(self.model[w].len() as u32 + 1) as usize;
                if self.spec.allow_lies && ch.pick(4) == 0 {
                    op.lie = [-2isize, -1, 1, 2][ch.pick(4) as usize];
                    op.repl_kind = ReplKind::Wrapper;
                }
            }
            return op;
        }
        // exhaustive: three sub-sweeps (sum, not product)
        let n_modes = if splice { if self.spec.allow_lies { 4 } else { 3 } } else { 2 };
        let m = ch.pick(n_modes + 1);
        let mode = if m == n_modes { 9 } else { m };
        match mode {
            9 => {
                // every valid range x nth(k), k = 0..=n+1, then nothing / next / next_back / both
                let a = ch.pick(len as u32 + 1) as usize;
                let b = a + ch.pick((len - a) as u32 + 1) as usize;
                op.x = a;
                op.y = b;
                op.typed = ch.flip();
                let n = b - a;
                op.skip = Some(ch.pick(n as u32 + 2) as usize);
                op.calls = match ch.pick(4) {
                    1 => vec![false],
                    2 => vec![true],
                    3 => vec![true, false],
                    _ => Vec::new(),
                };
                op.sinks = vec![ItemSink::Drop; op.calls.len()];
                op.forget_iter = allow_forget && ch.flip();
                if splice {
                    op.repl_len = ch.pick(3) as usize;
                }
            }
            0 => {
                // every form x every pair of bound values around the boundaries and at usize::MAX
                op.form = ch.pick(N_FORMS);
                let uses_x = !matches!(op.form, 2 | 3 | 5);
                let uses_y = !matches!(op.form, 4 | 5 | 8);
                op.x = if uses_x { edge_val(ch.pick(len as u32 + 5) as usize, len + 2) } else { 0 };
                op.y = if uses_y { edge_val(ch.pick(len as u32 + 5) as usize, len + 2) } else { 0 };
                op.typed = ch.flip();
                let n = oracle_range(bounds_of(op.form, op.x, op.y), len).map(|(a, b)| b - a).unwrap_or(0);
                if ch.flip() {
                    op.calls = vec![false; n];
                    op.sinks = vec![ItemSink::Downcast; n];
                }
                if splice {
                    op.repl_len = 2 * ch.pick(2) as usize;
                }
            }
            1 => {
                // every valid range x every next/next_back string x sink
                let a = ch.pick(len as u32 + 1) as usize;
                let b = a + ch.pick((len - a) as u32 + 1) as usize;
                op.x = a;
                op.y = b;
                op.typed = ch.flip();
                let n = b - a;
                let ncalls = ch.pick(n as u32 + 2 + self.spec.extra_calls as u32) as usize; // 0..=n+1+extra (calls past exhaustion)
                for _ in 0..ncalls {
                    op.calls.push(ch.flip());
                }
                let s = item_sinks[ch.pick(item_sinks.len() as u32) as usize];
                op.sinks = vec![s; ncalls];
                op.forget_iter = allow_forget && ch.flip();
                if splice {
                    op.repl_len = ch.pick(3) as usize;
                }
            }
            3 => {
                // lying ExactSizeIterator: len() off by -2..=+2 for every replacement length 0..=4
                let a = ch.pick(len as u32 + 1) as usize;
                let b = a + ch.pick((len - a) as u32 + 1) as usize;
                op.x = a;
                op.y = b;
                op.typed = ch.flip();
                op.repl_len = ch.pick(5) as usize;
                op.lie = [-2isize, -1, 1, 2][ch.pick(4) as usize];
                // some of the removed items are taken first, from either end
                let n = b - a;
                op.calls = match ch.pick(4) {
                    1 if n >= 1 => vec![false],
                    2 if n >= 1 => vec![true],
                    3 if n >= 2 => vec![true, false],
                    _ => Vec::new(),
                };
                op.sinks = vec![ItemSink::Drop; op.calls.len()];
            }
            _ => {
                // replacement sweep
                let a = ch.pick(len as u32 + 1) as usize;
                let b = a + ch.pick((len - a) as u32 + 1) as usize;
                op.x = a;
                op.y = b;
                op.repl_kind = REPL_KINDS[ch.pick(4) as usize];
                op.repl_len = ch.pick(4) as usize;
                op.wa = ch.pick(2) as usize;
                let n = b - a;
                match ch.pick(3) {
                    0 => {}
                    1 => {
                        op.calls = vec![false; n];
                    }
                    _ => {
                        if n > 0 {
                            op.calls = vec![true];
                        }
                    }
                }
                op.sinks = vec![ItemSink::Drop; op.calls.len()];
            }
        }
        op
    }
}

impl<C: Cfg> World<C> {
    /// After the operation(s) of a one-step case: every vector takes two more elements (typed and
    /// erased push) under the ordinary oracle, so that state damaged silently by the operation
    /// (lost destructor, capacity that no longer grows, stale cached offsets) shows when the
    /// vectors are used again and finally dropped.
    pub fn epilogue(&mut self, tr: &mut String) {
        if self.dead() || self.fault_mode {
            return;
        }
        let nt = self.nontrivial;
        for s in 0..self.n_slots {
            if self.vecs[s].is_none() {
                continue;
            }
            let room = match self.flav[s].fixed_cap() {
                Some(c) => c.saturating_sub(self.model[s].len()),
                None => usize::MAX,
            };
            if room >= 1 && !self.dead() {
                let _ = write!(tr, " epilogue: ");
                self.do_insert(s, None, Src::Typed, s, 0, 1, false, tr);
                self.check_state("epilogue-push");
            }
            if room >= 2 && !self.dead() {
                let _ = write!(tr, ", ");
                self.do_insert(s, None, Src::Raw, s, 0, 1, false, tr);
                self.check_state("epilogue-push-raw");
            }
        }
        self.nontrivial = nt;
    }

    /// Arm the k-th user-code invocation (1-based, counted from now) to panic.
    pub fn arm_fault(&mut self, k: u32) {
        crate::elem::reg(|r| {
            r.user_calls = 0;
            r.fault_at = Some(k);
            r.fault_fired = false;
        });
        self.fault_mode = true;
    }
    pub fn disarm_fault(&mut self) -> u32 {
        self.fault_mode = false;
        crate::elem::reg(|r| {
            r.fault_at = None;
            r.fault_fired = false;
            r.user_calls
        })
    }

    /// The injected fault fired inside operation `ctx`. Only validity is promised now:
    /// check it, resynchronise the model, then prove the vectors are still fully usable.
    pub fn after_fault(&mut self, ctx: &'static str, tr: &mut String) {
        self.disarm_fault();
        self.faults_fired += 1;
        self.nontrivial = true;
        self.class("fault-fired");
        let _ = write!(tr, "[fault fired in {}] ", ctx);
        for s in 0..3 {
            if self.vecs[s].is_some() {
                self.resync_after_damage(s);
            }
        }
        self.recount_leaks();
        if self.dead() {
            return;
        }
        self.check_state("after-fault");
        if self.dead() {
            return;
        }
        self.usability_script(FAULT_SCRIPT.with(|c| c.get()), tr);
    }

    /// Ordinary use of every vector under the ordinary oracle. Variant 0: push, insert, remove,
    /// drain, clear, pushes. Variant 1: three appends in a row (no insert in between), a capacity
    /// change, clear, append - the state a damaged operation left behind is overwritten step by step.
    pub fn usability_script(&mut self, variant: u32, tr: &mut String) {
        let fls: Vec<crate::backend::Flavour> = self.flav.to_vec();
        // a vector that did not survive (e.g. the destination of an interrupted clone) is replaced
        for s in 0..self.n_slots {
            if self.vecs[s].is_none() {
                self.setup_slot(s, fls[s], 0, None);
            }
        }
        if variant == 2 {
            return;
        }
        if variant == 1 {
            for s in 0..3 {
                if self.vecs[s].is_none() {
                    continue;
                }
                let _ = write!(tr, "usability'(v{}): ", s);
                let fixed = fls[s].fixed_cap();
                let room = |w: &Self| fixed.map(|c| c > w.model[s].len()).unwrap_or(true);
                for (i, src) in [Src::Raw, Src::Wrapper, Src::Typed].into_iter().enumerate() {
                    if room(self) && !self.dead() {
                        self.do_insert(s, None, src, s, 0, 1, false, tr);
                        self.check_state(["usability-append1", "usability-append2", "usability-append3"][i]);
                    }
                }
                if C::M::RESIZABLE && !self.dead() {
                    self.do_capacity(CapOp::ShrinkToFit, s, 0, false, tr);
                    self.check_state("usability-shrink");
                }
                if !self.dead() && s % 2 == 0 {
                    self.do_clear(s, false, tr);
                    self.check_state("usability-clear");
                    if room(self) && !self.dead() {
                        self.do_insert(s, None, Src::Raw, s, 0, 1, false, tr);
                        self.check_state("usability-push2");
                    }
                }
                // odd slots are destroyed as they are by finish()
            }
            return;
        }
        for s in 0..3 {
            if self.vecs[s].is_none() {
                continue;
            }
            let other = (0..3).find(|o| *o != s && self.vecs[*o].is_some());
            let _ = write!(tr, "usability(v{}): ", s);
            let fixed = fls[s].fixed_cap();
            let room = |w: &Self| fixed.map(|c| c > w.model[s].len()).unwrap_or(true);
            if room(self) {
                self.do_insert(s, None, Src::Wrapper, s, 0, 1, false, tr);
                self.check_state("usability-push");
            }
            if room(self) && !self.dead() {
                self.do_insert(s, Some(0), Src::Raw, s, 0, 1, false, tr);
                self.check_state("usability-insert");
            }
            if !self.dead() && !self.model[s].is_empty() {
                let mid = self.model[s].len() / 2;
                self.do_remove(RemKind::Remove, s, mid, Sink::Drop, other.unwrap_or(s), 0, tr);
                self.check_state("usability-remove");
            }
            if !self.dead() && !self.model[s].is_empty() {
                if let Some(o) = other {
                    let rop = RangeOp { v: s, form: 2, x: 0, y: 1, typed: false, calls: vec![], sinks: vec![], w: o, forget_iter: false, splice: false, repl_kind: ReplKind::Wrapper, repl_len: 0, wa: 0, lie: 0, skip: None };
                    self.do_range(&rop, tr);
                    self.check_state("usability-drain");
                }
            }
            if !self.dead() {
                self.do_clear(s, false, tr);
                self.check_state("usability-clear");
            }
            if room(self) && !self.dead() {
                self.do_insert(s, None, Src::Raw, s, 0, 1, false, tr);
                self.check_state("usability-push2");
            }
            if room(self) && !self.dead() {
                self.do_insert(s, None, Src::Typed, s, 0, 1, false, tr);
                self.check_state("usability-push3");
            }
        }
    }
}

thread_local! {
    /// which usability script follows an injected fault (set by the fault enumeration)
    static FAULT_SCRIPT: std::cell::Cell<u32> = const { std::cell::Cell::new(0) };
}

/// Run one case of `shape` for configuration `C`.
pub fn run_case<C: Cfg>(spec: &Spec, shape: Shape, ch: &mut Ch, tr: &mut String) -> CaseOut {
    if !spec.fault_enum || shape == Shape::History {
        return run_body::<C>(spec, shape, ch, tr, None).0;
    }
    // fault enumeration: a fault-free run counts the N user-code invocations inside the
    // operation, then N re-runs of the same case make the k-th invocation panic.
    let (mut out, mut n) = run_body::<C>(spec, shape, ch, tr, Some(u32::MAX));
    if out.op_panicked {
        // an operation that panics by itself plus a panicking destructor is a double panic
        // (process abort by language rule): excluded by construction, counted
        out.avoided += 1;
        n = 0;
    }
    let picks = ch.rec.clone();
    out.extra_evals = 0;
    if out.violation.is_some() || out.desync.is_some() {
        return out;
    }
    let mut fired = 0;
    // every fault point is followed by both usability scripts
    for kk in 0..2 * n.min(64) {
        let k = 1 + kk / 2;
        FAULT_SCRIPT.with(|c| c.set(kk % 2));
        let mut ch2 = Ch::replay(picks.clone());
        let mut tr2 = String::new();
        let (o2, _) = run_body::<C>(spec, shape, &mut ch2, &mut tr2, Some(k));
        FAULT_SCRIPT.with(|c| c.set(0));
        out.extra_evals += 1;
        for c in o2.classes {
            if !out.classes.contains(&c) {
                out.classes.push(c);
            }
        }
        if o2.nontrivial {
            fired += 1;
        }
        if o2.violation.is_some() || o2.desync.is_some() {
            tr.clear();
            let _ = write!(tr, "{{fault at user-code invocation {} of {}, usability script {}}} {}", k, n, kk % 2, tr2);
            out.violation = o2.violation;
            out.desync = o2.desync;
            out.nontrivial = true;
            return out;
        }
    }
    let _ = write!(tr, " {{{} user-code invocations; {} faults injected}}", n, fired);
    out.nontrivial = fired > 0;
    out
}

/// One execution. `fault`: None = plain; Some(u32::MAX) = count user-code invocations of the
/// operation; Some(k) = make the k-th invocation panic.
pub fn run_body<C: Cfg>(spec: &Spec, shape: Shape, ch: &mut Ch, tr: &mut String, fault: Option<u32>) -> (CaseOut, u32) {
    let mut w = World::<C>::new(spec.clone());
    let mut user_calls = 0u32;
    let flavours = C::M::flavours(C::T::SIZE);
    let nf = flavours.len() as u32;
    match shape {
        Shape::Step | Shape::Step2 => {
            let fi = ch.pick(nf) as usize;
            let fl = flavours[fi];
            let maxlen = match fl.fixed_cap() {
                Some(c) => c.min(spec.max_len),
                None => spec.max_len,
            };
            let len = ch.pick(maxlen as u32 + 1) as usize;
            let extra = if fl.fixed_cap().is_none() { Some([0usize, 1, 3][ch.pick(3) as usize]) } else { None };
            let wfl = flavours[(fi + 1) % flavours.len()];
            let wl = match wfl.fixed_cap() {
                Some(c) => c.min(3),
                None => 3,
            };
            let _ = write!(tr, "[{}] v0: {} len {} cap+{:?}; v1: {} len {} | ", C::NAME, fl.name(), len, extra, wfl.name(), wl);
            w.setup_slot(0, fl, len, extra);
            w.setup_slot(1, wfl, wl, Some(1));
            w.check_state("setup");
            w.nontrivial = false;
            if let Some(k) = fault {
                w.arm_fault(k);
            }
            w.step(ch, false, tr);
            if fault.is_some() {
                user_calls = w.disarm_fault();
            }
            if shape == Shape::Step2 && !w.dead() {
                w.step(ch, false, tr);
            }
            w.epilogue(tr);
        }
        Shape::CloneThen => {
            let fi = ch.pick(nf) as usize;
            let fl = flavours[fi];
            let maxlen = fl.fixed_cap().unwrap_or(usize::MAX).min(spec.max_len);
            let len = ch.pick(maxlen as u32 + 1) as usize;
            // fixed-capacity sources are also tried completely full
            let full = fl.fixed_cap().is_some() && ch.flip();
            let len = if full { fl.fixed_cap().unwrap().min(8) } else { len };
            // resizable flavours: also sizes whose byte length crosses 128 (bulk-copy thresholds)
            let len = if len == maxlen && fl.fixed_cap().is_none() && !(C::T::TRACKED && !C::T::ZST && C::T::IDBYTES == 1) { [len, 16, 40][ch.pick(3) as usize] } else { len };
            let extra = if fl.fixed_cap().is_none() { Some([0usize, 2][ch.pick(2) as usize]) } else { None };
            let _ = write!(tr, "[{}] v0: {} len {} cap+{:?} | ", C::NAME, fl.name(), len, extra);
            w.setup_slot(0, fl, len, extra);
            w.setup_slot(1, fl, 0, None);
            w.check_state("setup");
            w.nontrivial = false;
            // clone | clone_empty | clone_empty_in(each flavour) | clone_from (4 kinds of destination)
            let how = ch.pick(nf + 6) as usize;
            if let Some(k) = fault {
                w.arm_fault(k);
            }
            if how == 0 {
                w.do_clone(0, 1, 0, tr);
            } else if how >= nf as usize + 2 {
                w.do_clone(0, 1, (how - nf as usize - 1) as u32, tr);
            } else if how == 1 {
                w.do_clone_empty(0, 1, None, tr);
            } else {
                w.do_clone_empty(0, 1, Some(flavours[how - 2]), tr);
            }
            let _ = write!(tr, "; ");
            if w.fault_mode && crate::elem::reg(|r| r.fault_fired) {
                w.after_fault("clone", tr);
            } else {
                if fault.is_some() {
                    user_calls = w.disarm_fault();
                }
                w.check_state("clone");
                // (two of the four clone_from destinations take no follow-up operation: cost)
                let follow = how < nf as usize + 2 || matches!(how - nf as usize - 1, 2 | 3);
                if !w.dead() && len < 16 && follow {
                    // one operation on the original or on the clone; the other one must not change
                    let on_clone = ch.flip();
                    let slots = if on_clone { (1, 0) } else { (0, 1) };
                    w.step_on(ch, false, Some(slots), tr);
                }
                w.epilogue(tr);
            }
        }
        Shape::RawThen => {
            let fi = ch.pick(nf) as usize;
            let fl = flavours[fi];
            let maxlen = fl.fixed_cap().unwrap_or(usize::MAX).min(spec.max_len);
            let len = ch.pick(maxlen as u32 + 1) as usize;
            let extra = if fl.fixed_cap().is_none() { Some([0usize, 1, 3][ch.pick(3) as usize]) } else { None };
            let _ = write!(tr, "[{}] v0: {} len {} cap+{:?} | ", C::NAME, fl.name(), len, extra);
            w.setup_slot(0, fl, len, extra);
            w.setup_slot(1, fl, fl.fixed_cap().unwrap_or(2).min(2), None);
            w.check_state("setup");
            w.nontrivial = false;
            // a capacity route before decomposing: none | shrink_to_fit | reserve(3) | pop |
            // (zero-sized elements, which never allocate) a capacity beyond isize::MAX
            match ch.pick(5) {
                4 if C::M::RESIZABLE && C::T::ZST => {
                    w.do_capacity(CapOp::Reserve, 0, (usize::MAX >> 1) + 7, false, tr);
                    let _ = write!(tr, "; ");
                }
                1 if C::M::RESIZABLE => {
                    w.do_capacity(CapOp::ShrinkToFit, 0, 0, false, tr);
                    let _ = write!(tr, "; ");
                }
                2 if C::M::RESIZABLE => {
                    w.do_capacity(CapOp::Reserve, 0, 3, false, tr);
                    let _ = write!(tr, "; ");
                }
                3 => {
                    w.do_remove(RemKind::Pop, 0, 0, Sink::Drop, 1, 0, tr);
                    let _ = write!(tr, "; ");
                }
                _ => {}
            }
            w.check_state("raw-prefix");
            let trips = 1 + ch.pick(3);
            for t in 0..trips {
                let cl = ch.flip();
                w.do_raw_parts(0, cl, tr);
                let _ = write!(tr, "; ");
                w.check_state("raw_parts");
                if trips >= 2 && t == 1 {
                    w.nontrivial = true;
                }
                if w.dead() {
                    break;
                }
            }
            if !w.dead() {
                w.step(ch, false, tr);
            }
        }
        Shape::Grid => {
            let _ = write!(tr, "[{}] grid shape needs a grid configuration", C::NAME);
        }
        Shape::Threshold => {
            let fi = ch.pick(nf) as usize;
            let fl = flavours[fi];
            let size = C::T::SIZE.max(1);
            // lengths with len x size (and (len-1) x size) in 120..=136, plus powers of two +-1
            let mut lens: Vec<usize> = Vec::new();
            for bytes in [126usize, 127, 128, 129, 130, 136] {
                for l in [bytes / size, bytes / size + 1, bytes / size + 2] {
                    if l >= 1 && l <= 140 && !lens.contains(&l) {
                        lens.push(l);
                    }
                }
            }
            for l in [15usize, 16, 17, 31, 32, 33] {
                if !lens.contains(&l) {
                    lens.push(l);
                }
            }
            // small id spaces: keep the number of instances within the id space
            if C::T::TRACKED && !C::T::ZST && C::T::IDBYTES == 1 {
                lens.retain(|l| *l <= 140);
            }
            let len = lens[ch.pick(lens.len() as u32) as usize];
            let len = match fl.fixed_cap() {
                Some(c) => len.min(c),
                None => len,
            };
            let extra = if fl.fixed_cap().is_none() { Some([0usize, 1][ch.pick(2) as usize]) } else { None };
            let _ = write!(tr, "[{}] v0: {} len {} cap+{:?} | ", C::NAME, fl.name(), len, extra);
            w.setup_slot(0, fl, len, extra);
            let wfl = flavours[(fi + 1) % flavours.len()];
            w.setup_slot(1, wfl, wfl.fixed_cap().unwrap_or(3).min(3), Some(1));
            w.check_state("setup");
            w.nontrivial = false;
            // operation: insert / remove / swap_remove near the front (largest shifts), erased and typed
            let idx = [0usize, 1, 2, len / 2][ch.pick(4) as usize].min(len);
            match ch.pick(6) {
                0 => w.do_insert(0, Some(idx), Src::Raw, 1, 0, 1, false, tr),
                1 => w.do_insert(0, Some(idx), Src::Typed, 1, 0, 1, false, tr),
                2 => w.do_insert(0, Some(idx), Src::HandleRemove, 1, 0, 1, false, tr),
                3 => w.do_remove(RemKind::Remove, 0, idx, Sink::Drop, 1, 0, tr),
                4 => w.do_remove(RemKind::Remove, 0, idx, Sink::Typed, 1, 0, tr),
                _ => w.do_remove(RemKind::Remove, 0, idx, Sink::MovePush, 1, 0, tr),
            }
            let _ = write!(tr, "; ");
            w.check_state("threshold-op");
            w.nontrivial = true;
        }
        Shape::Placement => {
            let fi = ch.pick(nf) as usize;
            let fl = flavours[fi];
            let valign = std::mem::align_of::<V<C>>().max(1);
            let n_off = (64 / valign).max(1) as u32;
            let off_idx = ch.pick(n_off) as usize;
            let len = ch.pick(4) as usize;
            let _ = write!(tr, "[{}] ", C::NAME);
            crate::ops_views::placement_case::<C>(&mut w, fl, off_idx, len, tr);
        }
        Shape::CapSpecial => {
            let fi = ch.pick(nf) as usize;
            let fl = flavours[fi];
            let _ = write!(tr, "[{}] {} ", C::NAME, fl.name());
            if fl.fixed_cap().is_some() || !C::M::RESIZABLE {
                let _ = write!(tr, "not resizable: skipped");
            } else if ch.flip() {
                let n = w.cap_arg(ch.pick(w.cap_arg_count()) as usize, 0);
                w.with_capacity_case(fl, n, tr);
            } else {
                let k = 3 + ch.pick(spec.max_len as u32);
                let erased = ch.flip();
                let prefix = ch.pick(5);
                w.amortisation_case(fl, k, erased, prefix, tr);
            }
        }
        Shape::History => {
            let _ = write!(tr, "[{}] ", C::NAME);
            for s in 0..3 {
                let fl = flavours[ch.pick(nf) as usize];
                let maxlen = fl.fixed_cap().unwrap_or(usize::MAX).min(12);
                let len = ch.pick(maxlen as u32 + 1) as usize;
                let _ = write!(tr, "v{}: {} len {}; ", s, fl.name(), len);
                w.setup_slot(s, fl, len, None);
            }
            let _ = write!(tr, "| ");
            w.n_slots = 3;
            w.check_state("setup");
            w.nontrivial = false;
            let mut n = 0;
            while !w.dead() && n < 400 {
                ch.align(RECORD);
                if !ch.has_more() {
                    break;
                }
                // 1-byte instance ids: stop before the id space (255 instances per case) runs out
                if C::T::TRACKED && !C::T::ZST && C::T::IDBYTES == 1 {
                    let used = crate::elem::reg(|r| r.entries.len());
                    let total: usize = w.model.iter().map(|m| m.len()).sum();
                    if used + total + 24 > 250 {
                        let _ = write!(tr, "[id space nearly exhausted: history ends] ");
                        break;
                    }
                }
                if spec.fault_enum && w.faults_fired < 3 && ch.pick(3) == 0 {
                    let k = 1 + ch.pick(6);
                    // what follows the fault: script 0, script 1, or nothing but the rest of the history
                    let script = ch.pick(3);
                    FAULT_SCRIPT.with(|c| c.set(script));
                    w.arm_fault(k);
                    w.step(ch, true, tr);
                    w.disarm_fault();
                    FAULT_SCRIPT.with(|c| c.set(0));
                } else {
                    w.step(ch, true, tr);
                }
                n += 1;
            }
        }
    }
    w.finish();
    if let Some(v) = &w.viol {
        let _ = write!(tr, " => VIOLATION[{}] {}", v.sig, v.msg);
    }
    (CaseOut { violation: w.viol.take(), desync: w.desync.take(), nontrivial: w.nontrivial, classes: std::mem::take(&mut w.classes), avoided: w.avoided, extra_evals: 0, op_panicked: w.op_panicked }, user_calls)
}

//! Configuration matrix (DESIGN.md §3): element type x backend x constraint set.

use any_vec::traits::*;

use crate::backend::{FixedB, GuardB, Multi};
use crate::cases::{run_case, CaseOut, Shape};
use crate::choices::Ch;
use crate::elem::*;
use crate::world::{Cfg, Spec};

pub const G_LAYOUT: u32 = 1; // all element layouts x Multi(Heap|GuardMem|GuardFixed)
pub const G_BACKEND: u32 = 2; // representative elements x directly-typed backends
pub const G_CONSTRAINT: u32 = 4; // Tr8 x Heap x all 8 constraint sets
pub const G_STACK: u32 = 8; // inline backends
pub const G_CORE: u32 = 16; // small representative subset (expensive shapes)
pub const G_RAW: u32 = 32; // backends with raw parts (Heap, Empty)

pub struct ConfigEntry {
    pub name: &'static str,
    pub groups: u32,
    pub elem: &'static str,
    pub elem_size: usize,
    pub elem_align: usize,
    pub tracked: bool,
    pub backend: &'static str,
    pub tset: &'static str,
    pub flavours: fn(usize) -> Vec<crate::backend::Flavour>,
    pub run: fn(&Spec, Shape, &mut Ch, &mut String) -> CaseOut,
}

macro_rules! configs {
    ($( $id:ident : $t:ty, $m:ty, $tr:ty, $groups:expr ;)*) => {
        $(
            pub struct $id;
            impl Cfg for $id {
                type T = $t;
                type M = $m;
                type Tr = $tr;
                const NAME: &'static str = stringify!($id);
            }
        )*
        pub fn all_configs() -> Vec<ConfigEntry> {
            vec![
                $( ConfigEntry {
                    name: stringify!($id),
                    groups: $groups,
                    elem: <$t as Elem>::NAME,
                    elem_size: <$t as Elem>::SIZE,
                    elem_align: <$t as Elem>::ALIGN,
                    tracked: <$t as Elem>::TRACKED,
                    backend: <$m as crate::backend::Backend>::NAME,
                    tset: <$tr as crate::tset::TSet>::NAME,
                    flavours: <$m as crate::backend::Backend>::flavours,
                    run: run_case::<$id>,
                }, )*
            ]
        }
    };
}

#[cfg(feature = "lib_alloc")]
type Heap = any_vec::mem::Heap;
type Stack<const S: usize> = any_vec::mem::Stack<S>;
type StackN<const N: usize, const S: usize> = any_vec::mem::StackN<N, S>;

#[cfg(feature = "lib_alloc")]
configs! {
    // layout sweep on the run-time multi backend
    Tr0_Multi:    Tr0,    Multi, dyn Cloneable, G_LAYOUT;
    Tr0a16_Multi: Tr0a16, Multi, dyn Cloneable, G_LAYOUT;
    Tr1_Multi:    Tr1,    Multi, dyn Cloneable, G_LAYOUT;
    Tr2_Multi:    Tr2,    Multi, dyn Cloneable, G_LAYOUT;
    Tr3_Multi:    Tr3,    Multi, dyn Cloneable, G_LAYOUT | G_CORE;
    Tr8_Multi:    Tr8,    Multi, dyn Cloneable, G_LAYOUT | G_CORE;
    Tr12_Multi:   Tr12,   Multi, dyn Cloneable, G_LAYOUT;
    Tr16_Multi:   Tr16,   Multi, dyn Cloneable, G_LAYOUT;
    Tr24_Multi:   Tr24,   Multi, dyn Cloneable, G_LAYOUT | G_CORE;
    Tr64_Multi:   Tr64,   Multi, dyn Cloneable, G_LAYOUT;
    Tr160_Multi:  Tr160,  Multi, dyn Cloneable, G_LAYOUT | G_CORE;
    Pl0_Multi:    Pl0,    Multi, dyn Cloneable, G_LAYOUT;
    Pl1_Multi:    Pl1,    Multi, dyn Cloneable, G_LAYOUT | G_CORE;
    Pl3_Multi:    Pl3,    Multi, dyn Cloneable, G_LAYOUT;
    Pl8_Multi:    Pl8,    Multi, dyn Cloneable, G_LAYOUT;
    Pl16_Multi:   Pl16,   Multi, dyn Cloneable, G_LAYOUT;
    Pl24_Multi:   Pl24,   Multi, dyn Cloneable, G_LAYOUT;
    Pl160_Multi:  Pl160,  Multi, dyn Cloneable, G_LAYOUT;
    // directly typed backends
    Tr8_Heap:     Tr8,    Heap,   dyn Cloneable, G_BACKEND | G_CORE | G_RAW;
    Tr24_Heap:    Tr24,   Heap,   dyn Cloneable, G_BACKEND | G_RAW;
    Pl3_Heap:     Pl3,    Heap,   dyn Cloneable, G_BACKEND | G_RAW;
    Tr0_Heap:     Tr0,    Heap,   dyn Cloneable, G_BACKEND | G_RAW;
    Tr1_Heap:     Tr1,    Heap,   dyn Cloneable, G_RAW;
    Tr16_Heap:    Tr16,   Heap,   dyn Cloneable, G_RAW;
    Tr160_Heap:   Tr160,  Heap,   dyn Cloneable, G_RAW;
    Pl8_Heap:     Pl8,    Heap,   dyn Cloneable, G_RAW;
    Tr8_Empty:    Tr8,    any_vec::mem::Empty, dyn Cloneable, G_RAW;
    Tr0_Empty:    Tr0,    any_vec::mem::Empty, dyn None, G_RAW;
    Pl3_Empty:    Pl3,    any_vec::mem::Empty, dyn Cloneable + Send + Sync, G_RAW;
    Tr8_Guard:    Tr8,    GuardB, dyn Cloneable, G_BACKEND;
    Tr3_Guard:    Tr3,    GuardB, dyn Cloneable, G_BACKEND;
    Tr8_Fixed:    Tr8,    FixedB, dyn Cloneable, G_BACKEND;
    Tr8_Stack:    Tr8,    Stack<40>,      dyn Cloneable, G_BACKEND | G_STACK;
    Tr24_Stack:   Tr24,   Stack<100>,     dyn Cloneable, G_BACKEND | G_STACK;
    Pl3_Stack:    Pl3,    Stack<17>,      dyn Cloneable, G_BACKEND | G_STACK;
    Tr0_Stack:    Tr0,    Stack<8>,       dyn Cloneable, G_BACKEND | G_STACK;
    Tr1_Stack:    Tr1,    Stack<6>,       dyn Cloneable, G_BACKEND | G_STACK;
    Tr8_StackN:   Tr8,    StackN<4, 40>,  dyn Cloneable, G_BACKEND | G_STACK;
    Tr24_StackN:  Tr24,   StackN<3, 72>,  dyn Cloneable, G_BACKEND | G_STACK;
    Pl3_StackN:   Pl3,    StackN<5, 16>,  dyn Cloneable, G_BACKEND | G_STACK;
    Tr0_StackN:   Tr0,    StackN<4, 0>,   dyn Cloneable, G_BACKEND | G_STACK;
    // constraint sweep
    Tr8_Heap_None:  Tr8, Heap, dyn None,                    G_CONSTRAINT | G_RAW;
    Tr8_Heap_Send:  Tr8, Heap, dyn Send,                    G_CONSTRAINT | G_RAW;
    Tr8_Heap_Sync:  Tr8, Heap, dyn Sync,                    G_CONSTRAINT | G_RAW;
    Tr8_Heap_SS:    Tr8, Heap, dyn Send + Sync,             G_CONSTRAINT | G_RAW;
    Tr8_Heap_CSend: Tr8, Heap, dyn Cloneable + Send,        G_CONSTRAINT | G_RAW;
    Tr8_Heap_CSync: Tr8, Heap, dyn Cloneable + Sync,        G_CONSTRAINT | G_RAW;
    Tr8_Heap_CSS:   Tr8, Heap, dyn Cloneable + Send + Sync, G_CONSTRAINT | G_RAW;
}

#[cfg(not(feature = "lib_alloc"))]
configs! {
    Tr8_Stack:    Tr8,    Stack<40>,      dyn Cloneable, G_BACKEND | G_STACK;
    Tr24_Stack:   Tr24,   Stack<100>,     dyn Cloneable, G_BACKEND | G_STACK;
    Pl3_Stack:    Pl3,    Stack<17>,      dyn Cloneable, G_BACKEND | G_STACK;
    Tr0_Stack:    Tr0,    Stack<8>,       dyn Cloneable, G_BACKEND | G_STACK;
    Tr1_Stack:    Tr1,    Stack<6>,       dyn Cloneable, G_BACKEND | G_STACK;
    Tr8_StackN:   Tr8,    StackN<4, 40>,  dyn Cloneable, G_BACKEND | G_STACK;
    Tr24_StackN:  Tr24,   StackN<3, 72>,  dyn Cloneable, G_BACKEND | G_STACK;
    Pl3_StackN:   Pl3,    StackN<5, 16>,  dyn Cloneable, G_BACKEND | G_STACK;
    Tr0_StackN:   Tr0,    StackN<4, 0>,   dyn Cloneable, G_BACKEND | G_STACK;
}

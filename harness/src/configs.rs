//! Configuration matrix (DESIGN.md §3): element type x backend x constraint set.

use any_vec::traits::*;

use crate::backend::{FixedB, GuardB, Multi};
use crate::cases::{run_case, CaseOut, Shape};
use crate::choices::Ch;
use crate::elem::*;
use crate::world::{Cfg, Spec};

pub const G_LAYOUT: u32 = 1; // all element layouts x Multi(Heap|GuardMem|GuardFixed)
pub const G_BACKEND: u32 = 2; // representative elements x directly-typed backends
pub const G_CONSTRAINT: u32 = 4; // Tr8 x Heap x all 8 constraint sets
pub const G_STACK: u32 = 8; // inline backends
pub const G_CORE: u32 = 16; // small representative subset (expensive shapes)
pub const G_RAW: u32 = 32; // backends with raw parts (Heap, Empty)
pub const G_ALIGN: u32 = 128; // over-aligned elements on inline backends: placement shape only
pub const G_GRID: u32 = 256; // generated Stack/StackN SIZE x N grid (C11)
pub const G_PAIRS: u32 = 512; // generated (element type, offered type) matrix (C04)
pub const G_FAULT: u32 = 64; // tracked layouts for fault injection / forget

pub struct ConfigEntry {
    pub name: &'static str,
    pub groups: u32,
    pub elem: &'static str,
    pub elem_size: usize,
    pub elem_align: usize,
    pub tracked: bool,
    pub backend: &'static str,
    pub tset: &'static str,
    pub flavours: fn(usize) -> Vec<crate::backend::Flavour>,
    pub run: fn(&Spec, Shape, &mut Ch, &mut String) -> CaseOut,
}

/// Declares configuration marker types and a `configs()` function listing them.
#[macro_export]
macro_rules! configs {
    ($( $id:ident : $t:ty, $m:ty, $tr:ty, $groups:expr ;)*) => {
        $(
            pub struct $id;
            impl $crate::world::Cfg for $id {
                type T = $t;
                type M = $m;
                type Tr = $tr;
                const NAME: &'static str = stringify!($id);
            }
        )*
        pub fn configs() -> Vec<$crate::configs::ConfigEntry> {
            vec![
                $( $crate::configs::ConfigEntry {
                    name: stringify!($id),
                    groups: $groups,
                    elem: <$t as $crate::elem::Elem>::NAME,
                    elem_size: <$t as $crate::elem::Elem>::SIZE,
                    elem_align: <$t as $crate::elem::Elem>::ALIGN,
                    tracked: <$t as $crate::elem::Elem>::TRACKED,
                    backend: <$m as $crate::backend::Backend>::NAME,
                    tset: <$tr as $crate::tset::TSet>::NAME,
                    flavours: <$m as $crate::backend::Backend>::flavours,
                    run: $crate::cases::run_case::<$id>,
                }, )*
            ]
        }
    };
}

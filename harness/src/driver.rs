//! Drivers: bounded-exhaustive odometer, proptest runner, replay; task scheduling over threads;
//! breadcrumbs for crash containment; statistics and JSON output.

use std::collections::{BTreeMap, HashSet};
use std::fmt::Write as _;
use std::hash::{Hash, Hasher};
use std::os::unix::fs::FileExt;
use std::sync::atomic::{AtomicUsize, Ordering};
use std::sync::Mutex;

use proptest::prelude::*;
use proptest::test_runner::{Config, RngAlgorithm, RngSeed, TestCaseError, TestRng, TestRunner};

use crate::cases::{CaseOut, Shape, RECORD};
use crate::choices::{Ch, Pinned};
use crate::configs::ConfigEntry;
use crate::world::{mon_name, Spec, Violation};

#[derive(Clone, Debug)]
pub struct ViolationRec {
    pub prop: String,
    pub sig: String,
    pub monitor: String,
    pub msg: String,
    pub cfg: String,
    pub shape: String,
    pub picks: Vec<u32>,
    pub trace: String,
}

#[derive(Default)]
pub struct Stats {
    pub evaluations: u64,
    pub nontrivial: HashSet<u64>,
    pub classes: BTreeMap<String, u64>,
    pub per_config: BTreeMap<String, u64>,
    pub samples: Vec<String>,
    pub sample_final: bool,
    pub avoided: u64,
    pub desyncs: u64,
    pub first_desync: Option<String>,
    pub violations: Vec<ViolationRec>,
    pub exhaustive_tasks: u64,
    pub random_tasks: u64,
    pub shape_drift: u64,
    /// panics of the harness itself inside a generated case (never a verdict about the library)
    pub harness_errors: u64,
    pub first_harness_error: Option<String>,
    /// order-independent digest of (picks, trace) per configuration (feature-set differential)
    pub digests: BTreeMap<String, u64>,
}

impl Stats {
    pub fn merge(&mut self, o: Stats) {
        self.evaluations += o.evaluations;
        self.nontrivial.extend(o.nontrivial);
        for (k, v) in o.classes {
            *self.classes.entry(k).or_default() += v;
        }
        for (k, v) in o.per_config {
            *self.per_config.entry(k).or_default() += v;
        }
        // keep samples from different tasks (configurations / shapes), at most 48
        for smp in o.samples {
            if self.samples.len() < 48 {
                self.samples.push(smp);
            }
        }
        self.avoided += o.avoided;
        self.desyncs += o.desyncs;
        if self.first_desync.is_none() {
            self.first_desync = o.first_desync;
        }
        for v in o.violations {
            if !self.violations.iter().any(|x| x.sig == v.sig && x.cfg == v.cfg) && self.violations.len() < 64 {
                self.violations.push(v);
            }
        }
        self.exhaustive_tasks += o.exhaustive_tasks;
        self.random_tasks += o.random_tasks;
        self.shape_drift += o.shape_drift;
        self.harness_errors += o.harness_errors;
        if self.first_harness_error.is_none() {
            self.first_harness_error = o.first_harness_error;
        }
        for (k, v) in o.digests {
            let e = self.digests.entry(k).or_default();
            *e = e.wrapping_add(v);
        }
    }
}

pub fn shape_name(s: Shape) -> &'static str {
    match s {
        Shape::Step => "step",
        Shape::Step2 => "step2",
        Shape::History => "history",
        Shape::CloneThen => "clone_then",
        Shape::RawThen => "raw_then",
        Shape::CapSpecial => "cap_special",
        Shape::Placement => "placement",
        Shape::Grid => "grid",
        Shape::Threshold => "threshold",
    }
}
pub fn shape_from(s: &str) -> Option<Shape> {
    match s {
        "step" => Some(Shape::Step),
        "step2" => Some(Shape::Step2),
        "history" => Some(Shape::History),
        "clone_then" => Some(Shape::CloneThen),
        "raw_then" => Some(Shape::RawThen),
        "cap_special" => Some(Shape::CapSpecial),
        "placement" => Some(Shape::Placement),
        "grid" => Some(Shape::Grid),
        "threshold" => Some(Shape::Threshold),
        _ => None,
    }
}

pub enum Work {
    /// odometer over the whole tree below the pinned prefix
    Exhaustive { prefix: Vec<(u32, u32)> },
    /// proptest: `cases` histories of at most `max_ops` operations
    Random { cases: u32, max_ops: usize, seed: u64 },
}

pub struct Task<'a> {
    pub entry: &'a ConfigEntry,
    pub spec: Spec,
    pub shape: Shape,
    pub work: Work,
}

pub struct Crumb {
    file: Option<std::fs::File>,
    buf: String,
}
impl Crumb {
    pub fn new(path: Option<String>) -> Crumb {
        let file = path.and_then(|p| std::fs::OpenOptions::new().create(true).write(true).truncate(true).open(p).ok());
        Crumb { file, buf: String::new() }
    }
    /// Record the case about to run (one pwrite; survives the death of the process).
    pub fn mark(&mut self, prop: &str, cfg: &str, shape: Shape, kind: &str, vals: &mut dyn Iterator<Item = u32>) {
        tick();
        let Some(f) = &self.file else { return };
        self.buf.clear();
        let _ = write!(self.buf, "prop {}\ncfg {}\nshape {}\n{}", prop, cfg, shape_name(shape), kind);
        for v in vals {
            let _ = write!(self.buf, " {}", v);
        }
        self.buf.push('\n');
        while self.buf.len() < 4096 {
            self.buf.push(' ');
        }
        let _ = f.write_at(self.buf.as_bytes(), 0);
    }
    pub fn clear(&mut self) {
        if let Some(f) = &self.file {
            let _ = f.set_len(0);
        }
    }
}

fn hash_case(cfg: &str, shape: Shape, picks: &[u32]) -> u64 {
    let mut h = std::collections::hash_map::DefaultHasher::new();
    cfg.hash(&mut h);
    (shape as u8 as u32).hash(&mut h);
    picks.hash(&mut h);
    h.finish()
}

fn account(stats: &mut Stats, task: &Task, out: &CaseOut, picks: &[u32], trace: &str) {
    stats.evaluations += 1 + out.extra_evals as u64;
    {
        let mut h = std::collections::hash_map::DefaultHasher::new();
        picks.hash(&mut h);
        trace.hash(&mut h);
        out.violation.is_some().hash(&mut h);
        let e = stats.digests.entry(task.entry.name.to_string()).or_default();
        *e = e.wrapping_add(h.finish());
    }
    *stats.per_config.entry(task.entry.name.to_string()).or_default() += 1;
    stats.avoided += out.avoided as u64;
    if out.nontrivial {
        // one sample per task: the first non-trivial case, replaced once by a later one whose hash
        // falls into a 1/32 slot (so that the samples do not all show the first operation of the odometer)
        let hc = hash_case(task.entry.name, task.shape, picks);
        if stats.nontrivial.insert(hc) && (stats.samples.is_empty() || (!stats.sample_final && hc % 32 == 0)) {
            stats.sample_final = !stats.samples.is_empty();
            stats.samples.clear();
            stats.samples.push(trace.to_string());
        }
    }
    for c in &out.classes {
        *stats.classes.entry(c.to_string()).or_default() += 1;
    }
    if let Some(d) = &out.desync {
        stats.desyncs += 1;
        if stats.first_desync.is_none() {
            stats.first_desync = Some(format!("[{}] {} :: {}", mon_name(d.monitor & d.monitor.wrapping_neg()), d.msg, trace));
        }
    }
}

/// Violations are also appended to a side file the moment they are found, so that they survive
/// a later crash of the process (memory corruption caused by the very defect being reported).
pub static VIOLATION_LOG: std::sync::OnceLock<String> = std::sync::OnceLock::new();

fn log_violation_now(prop: &str, cfg: &str, shape: Shape, v: &Violation, picks: &[u32], trace: &str) {
    use std::io::Write as _;
    let Some(path) = VIOLATION_LOG.get() else { return };
    let picks_s: Vec<String> = picks.iter().map(|p| p.to_string()).collect();
    let line = format!(
        "{{\"prop\": {}, \"sig\": {}, \"msg\": {}, \"cfg\": {}, \"shape\": {}, \"picks\": [{}], \"trace\": {}}}\n",
        jstr(prop),
        jstr(&v.sig),
        jstr(&v.msg),
        jstr(cfg),
        jstr(shape_name(shape)),
        picks_s.join(","),
        jstr(trace)
    );
    if let Ok(mut f) = std::fs::OpenOptions::new().create(true).append(true).open(path) {
        let _ = f.write_all(line.as_bytes());
    }
}

fn record_violation(stats: &mut Stats, task: &Task, v: &Violation, picks: &[u32], trace: &str) {
    if stats.violations.iter().any(|x| x.sig == v.sig && x.cfg == task.entry.name) || stats.violations.len() >= 64 {
        return;
    }
    log_violation_now(task.spec.prop, task.entry.name, task.shape, v, picks, trace);
    let enabled = v.monitor & task.spec.mon;
    stats.violations.push(ViolationRec {
        prop: task.spec.prop.to_string(),
        sig: v.sig.clone(),
        monitor: mon_name(enabled & enabled.wrapping_neg()).to_string(),
        msg: v.msg.clone(),
        cfg: task.entry.name.to_string(),
        shape: shape_name(task.shape).to_string(),
        picks: picks.to_vec(),
        trace: trace.to_string(),
    });
}

pub fn run_task(task: &Task, crumb: &mut Crumb) -> Stats {
    let mut stats = Stats::default();
    let mut trace = String::with_capacity(512);
    match &task.work {
        Work::Exhaustive { prefix } => {
            stats.exhaustive_tasks += 1;
            let mut od = Pinned::new(prefix);
            loop {
                trace.clear();
                crumb.mark(task.spec.prop, task.entry.name, task.shape, "picks", &mut od.ch.odo_digits().into_iter());
                let out = (task.entry.run)(&task.spec, task.shape, &mut od.ch, &mut trace);
                if od.ch.shape_drift {
                    stats.shape_drift += 1;
                    od.ch.shape_drift = false;
                }
                let picks = od.ch.rec.clone();
                account(&mut stats, task, &out, &picks, &trace);
                if let Some(v) = &out.violation {
                    record_violation(&mut stats, task, v, &picks, &trace);
                }
                if !od.advance() {
                    break;
                }
            }
        }
        Work::Random { cases, max_ops, seed } => {
            stats.random_tasks += 1;
            let mut seed_bytes = [0u8; 32];
            for (i, b) in seed_bytes.iter_mut().enumerate() {
                *b = (seed.rotate_left((i as u32 * 7) % 64) >> ((i % 8) * 8)) as u8 ^ (i as u8).wrapping_mul(31);
            }
            let cfg = Config { cases: *cases, failure_persistence: None, max_shrink_iters: 4000, rng_seed: RngSeed::Fixed(*seed), ..Config::default() };
            let rng = TestRng::from_seed(RngAlgorithm::ChaCha, &seed_bytes);
            let mut runner = TestRunner::new_with_rng(cfg, rng);
            // 8 words of setup + RECORD words per operation
            let strat = (proptest::collection::vec(any::<u16>(), RECORD), proptest::collection::vec(proptest::collection::vec(any::<u16>(), RECORD), 0..*max_ops));
            let failed = std::cell::Cell::new(false);
            let st = std::cell::RefCell::new(&mut stats);
            let cr = std::cell::RefCell::new(&mut *crumb);
            let last_fail: std::cell::RefCell<Option<(Violation, Vec<u32>, String)>> = std::cell::RefCell::new(None);
            let res = runner.run(&strat, |(setup, ops)| {
                let mut words: Vec<u16> = Vec::with_capacity(RECORD * (ops.len() + 1));
                words.extend_from_slice(&setup);
                for o in &ops {
                    words.extend_from_slice(o);
                }
                cr.borrow_mut().mark(task.spec.prop, task.entry.name, task.shape, "words", &mut words.iter().map(|w| *w as u32));
                let mut ch = Ch::words(words);
                let mut trace = String::with_capacity(1024);
                let out = (task.entry.run)(&task.spec, task.shape, &mut ch, &mut trace);
                if !failed.get() {
                    // the closure is re-entered while shrinking: count only up to the first failure
                    account(&mut st.borrow_mut(), task, &out, &ch.rec, &trace);
                }
                if let Some(v) = out.violation {
                    failed.set(true);
                    *last_fail.borrow_mut() = Some((v.clone(), ch.rec.clone(), trace));
                    return Err(TestCaseError::fail(v.sig));
                }
                Ok(())
            });
            drop(st);
            drop(cr);
            if res.is_err() {
                // the last failing run is the shrunk one (proptest re-runs the minimal case last)
                if let Some((v, picks, trace)) = last_fail.into_inner() {
                    record_violation(&mut stats, task, &v, &picks, &trace);
                } else {
                    // proptest caught a panic of the harness itself: inconclusive, not a verdict
                    stats.harness_errors += 1;
                    stats.first_harness_error = Some(format!("{} {}: {:?}", task.entry.name, shape_name(task.shape), res.as_ref().err().map(|e| e.to_string())));
                }
            }
        }
    }
    crumb.clear();
    stats
}

/// per-worker progress counters (cases started), read by the watchdog
pub static PROGRESS: [std::sync::atomic::AtomicU64; 64] = [const { std::sync::atomic::AtomicU64::new(0) }; 64];
thread_local! {
    static WORKER: std::cell::Cell<usize> = const { std::cell::Cell::new(usize::MAX) };
}
#[inline]
fn tick() {
    WORKER.with(|w| {
        let i = w.get();
        if i < 64 {
            PROGRESS[i].fetch_add(1, Ordering::Relaxed);
        }
    });
}

/// Watchdog: a worker that starts no new case for `limit_s` seconds is stuck inside one case
/// (e.g. a loop over 2^64 zero-sized elements). That is reported as *inconclusive* (exit 3),
/// never as a violation; the breadcrumb of the stuck worker names the case.
fn watchdog(threads: usize, limit_s: u64, done: &std::sync::atomic::AtomicBool, tagname: &str) {
    let mut last: Vec<(u64, std::time::Instant)> = (0..threads).map(|i| (PROGRESS[i].load(Ordering::Relaxed), std::time::Instant::now())).collect();
    let mut idle_mark: Vec<bool> = vec![false; threads];
    while !done.load(Ordering::Relaxed) {
        std::thread::sleep(std::time::Duration::from_millis(200));
        for i in 0..threads {
            let now = PROGRESS[i].load(Ordering::Relaxed);
            if now == u64::MAX {
                idle_mark[i] = true; // worker finished
                continue;
            }
            if now != last[i].0 {
                last[i] = (now, std::time::Instant::now());
            } else if !idle_mark[i] && last[i].1.elapsed().as_secs() >= limit_s {
                eprintln!("[pbt {}] HANG: worker {} made no progress for {} s (case in its breadcrumb): inconclusive", tagname, i, limit_s);
                std::process::exit(3);
            }
        }
    }
}

/// Run tasks on `threads` worker threads.
pub fn run_tasks(tasks: &[Task], threads: usize, crumb_dir: Option<&str>, tagname: &str) -> Stats {
    let next = AtomicUsize::new(0);
    let total = Mutex::new(Stats::default());
    let threads = threads.clamp(1, 64);
    let done = std::sync::atomic::AtomicBool::new(false);
    let live = AtomicUsize::new(threads);
    let hang_limit: u64 = std::env::var("VERIF_HANG_S").ok().and_then(|s| s.parse().ok()).unwrap_or(180);
    for p in PROGRESS.iter() {
        p.store(0, Ordering::Relaxed);
    }
    std::thread::scope(|sc| {
        {
            let done = &done;
            sc.spawn(move || watchdog(threads, hang_limit, done, tagname));
        }
        let live = &live;
        let done = &done;
        for t in 0..threads.max(1) {
            let next = &next;
            let total = &total;
            let crumb_path = crumb_dir.map(|d| format!("{}/{}.{}.crumb", d, tagname, t));
            sc.spawn(move || {
                WORKER.with(|w| w.set(t));
                let mut crumb = Crumb::new(crumb_path);
                let mut local = Stats::default();
                loop {
                    let i = next.fetch_add(1, Ordering::Relaxed);
                    if i >= tasks.len() {
                        break;
                    }
                    let s = run_task(&tasks[i], &mut crumb);
                    local.merge(s);
                }
                PROGRESS[t].store(u64::MAX, Ordering::Relaxed);
                total.lock().unwrap().merge(local);
                if live.fetch_sub(1, Ordering::Relaxed) == 1 {
                    done.store(true, Ordering::Relaxed);
                }
            });
        }
    });
    total.into_inner().unwrap()
}

// ---------------------------------------------------------------------------------------
// JSON (hand-written: no serde dependency needed)

pub fn jstr(s: &str) -> String {
    let mut o = String::with_capacity(s.len() + 2);
    o.push('"');
    for c in s.chars() {
        match c {
            '"' => o.push_str("\\\""),
            '\\' => o.push_str("\\\\"),
            '\n' => o.push_str("\\n"),
            '\r' => o.push_str("\\r"),
            '\t' => o.push_str("\\t"),
            c if (c as u32) < 0x20 => {
                let _ = write!(o, "\\u{:04x}", c as u32);
            }
            c => o.push(c),
        }
    }
    o.push('"');
    o
}

/// up to n samples, preferring different configuration/shape prefixes
fn diverse(samples: &[String], n: usize) -> Vec<&String> {
    let mut out: Vec<&String> = Vec::new();
    let mut seen: Vec<&str> = Vec::new();
    for s in samples {
        let key = s.split(']').next().unwrap_or("");
        if !seen.contains(&key) {
            seen.push(key);
            out.push(s);
            if out.len() == n {
                return out;
            }
        }
    }
    for s in samples {
        if out.len() == n {
            break;
        }
        if !out.iter().any(|o| std::ptr::eq(*o, s)) {
            out.push(s);
        }
    }
    out
}

pub fn stats_json(prop: &str, tier: &str, seed: u64, profile: &str, rule: &str, bound: &str, wall_s: f64, stats: &Stats) -> String {
    let mut o = String::new();
    let _ = write!(o, "{{\n \"property_id\": {}, \"tier\": {}, \"seed\": {}, \"profile\": {},\n", jstr(prop), jstr(tier), seed, jstr(profile));
    let _ = write!(o, " \"evaluations\": {}, \"distinct_nontrivial\": {}, \"rule\": {}, \"bound\": {},\n", stats.evaluations, stats.nontrivial.len(), jstr(rule), jstr(bound));
    let _ = write!(o, " \"exhaustive_tasks\": {}, \"random_tasks\": {}, \"avoided_by_construction\": {}, \"desyncs\": {}, \"shape_drift\": {},\n", stats.exhaustive_tasks, stats.random_tasks, stats.avoided, stats.desyncs, stats.shape_drift);
    let _ = write!(o, " \"first_desync\": {},\n", stats.first_desync.as_deref().map(jstr).unwrap_or("null".into()));
    let _ = write!(o, " \"harness_errors\": {}, \"first_harness_error\": {},\n", stats.harness_errors, stats.first_harness_error.as_deref().map(jstr).unwrap_or("null".into()));
    let _ = write!(o, " \"wall_s\": {:.3},\n \"classes\": {{", wall_s);
    let mut first = true;
    for (k, v) in &stats.classes {
        let _ = write!(o, "{}{}: {}", if first { "" } else { ", " }, jstr(k), v);
        first = false;
    }
    let _ = write!(o, "}},\n \"per_config\": {{");
    first = true;
    for (k, v) in &stats.per_config {
        let _ = write!(o, "{}{}: {}", if first { "" } else { ", " }, jstr(k), v);
        first = false;
    }
    let _ = write!(o, "}},\n \"digests\": {{");
    first = true;
    for (k, v) in &stats.digests {
        let _ = write!(o, "{}{}: \"{:016x}\"", if first { "" } else { ", " }, jstr(k), v);
        first = false;
    }
    let _ = write!(o, "}},\n \"samples\": [");
    first = true;
    for s in diverse(&stats.samples, 12) {
        let _ = write!(o, "{}{}", if first { "" } else { ", " }, jstr(s));
        first = false;
    }
    let _ = write!(o, "],\n \"violations\": [");
    first = true;
    for v in &stats.violations {
        let picks: Vec<String> = v.picks.iter().map(|p| p.to_string()).collect();
        let _ = write!(
            o,
            "{}\n  {{\"prop\": {}, \"sig\": {}, \"monitor\": {}, \"msg\": {}, \"cfg\": {}, \"shape\": {}, \"picks\": [{}], \"trace\": {}}}",
            if first { "" } else { "," },
            jstr(&v.prop),
            jstr(&v.sig),
            jstr(&v.monitor),
            jstr(&v.msg),
            jstr(&v.cfg),
            jstr(&v.shape),
            picks.join(","),
            jstr(&v.trace)
        );
        first = false;
    }
    let _ = write!(o, "]\n}}\n");
    o
}

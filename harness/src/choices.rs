//! Choice sequences: one case-shape function, three drivers (DESIGN.md §2.6).
//!
//! A case is a function of a sequence of bounded picks.  The bounded-exhaustive driver walks
//! the tree of picks depth-first (odometer); proptest and libFuzzer supply raw u16 words that
//! are mapped monotonically onto each pick's range (so shrinking words shrinks picks); a
//! replay supplies recorded picks.  Every driver records the picks actually made – that list
//! is the replay file.

pub enum Source {
    /// depth-first enumeration: digits with arities
    Odo { digits: Vec<(u32, u32)>, pos: usize },
    /// raw words scaled onto the range; zeros once exhausted
    Words { words: Vec<u16>, pos: usize },
    /// recorded picks; zeros once exhausted
    Replay { picks: Vec<u32>, pos: usize },
}

pub struct Ch {
    pub src: Source,
    pub rec: Vec<u32>,
    /// set when an odometer digit's arity changed between runs (non-deterministic shape: harness bug)
    pub shape_drift: bool,
}

impl Ch {
    pub fn odometer() -> Ch {
        Ch { src: Source::Odo { digits: Vec::new(), pos: 0 }, rec: Vec::new(), shape_drift: false }
    }
    pub fn words(words: Vec<u16>) -> Ch {
        Ch { src: Source::Words { words, pos: 0 }, rec: Vec::new(), shape_drift: false }
    }
    pub fn replay(picks: Vec<u32>) -> Ch {
        Ch { src: Source::Replay { picks, pos: 0 }, rec: Vec::new(), shape_drift: false }
    }

    /// value in `0..n` (`n >= 1`)
    #[inline]
    pub fn pick(&mut self, n: u32) -> u32 {
        debug_assert!(n >= 1);
        let v = match &mut self.src {
            Source::Odo { digits, pos } => {
                let v = if *pos < digits.len() {
                    if digits[*pos].1 != n {
                        self.shape_drift = true;
                        digits[*pos].1 = n;
                        digits[*pos].0 = digits[*pos].0.min(n - 1);
                    }
                    digits[*pos].0
                } else {
                    digits.push((0, n));
                    0
                };
                *pos += 1;
                v
            }
            Source::Words { words, pos } => {
                let w = if *pos < words.len() { words[*pos] } else { 0 };
                *pos += 1;
                ((w as u64 * n as u64) >> 16) as u32
            }
            Source::Replay { picks, pos } => {
                let p = if *pos < picks.len() { picks[*pos] } else { 0 };
                *pos += 1;
                p.min(n - 1)
            }
        };
        self.rec.push(v);
        v
    }

    #[inline]
    pub fn flip(&mut self) -> bool {
        self.pick(2) == 1
    }

    /// pick one of the listed values
    pub fn of<T: Copy>(&mut self, xs: &[T]) -> T {
        xs[self.pick(xs.len() as u32) as usize]
    }

    /// History mode: each operation starts on a record boundary of `r` words, so that deleting
    /// or shrinking one record does not change the meaning of the following ones.
    pub fn align(&mut self, r: usize) {
        if let Source::Words { pos, .. } = &mut self.src {
            *pos = (*pos + r - 1) / r * r;
        }
    }

    /// Is there unread input left (Words/Replay)? Odometer: always false.
    pub fn has_more(&self) -> bool {
        match &self.src {
            Source::Odo { .. } => false,
            Source::Words { words, pos } => *pos < words.len(),
            Source::Replay { picks, pos } => *pos < picks.len(),
        }
    }

    /// Odometer: start the next case. Returns false when the space is exhausted.
    pub fn advance(&mut self) -> bool {
        self.rec.clear();
        match &mut self.src {
            Source::Odo { digits, pos } => {
                // drop digits that were not consulted in the last run (shape ended earlier)
                digits.truncate(*pos);
                *pos = 0;
                while let Some((v, n)) = digits.last().copied() {
                    if v + 1 < n {
                        let l = digits.len();
                        digits[l - 1].0 = v + 1;
                        return true;
                    }
                    digits.pop();
                }
                false
            }
            _ => false,
        }
    }

    /// Odometer: current digit values (the breadcrumb for a case about to run).
    pub fn odo_digits(&self) -> Vec<u32> {
        match &self.src {
            Source::Odo { digits, .. } => digits.iter().map(|d| d.0).collect(),
            _ => Vec::new(),
        }
    }

    /// Odometer: pin the first `k` digits (used to split the tree across tasks): advance() never
    /// changes them.
    pub fn odo_with_prefix(prefix: &[(u32, u32)]) -> Ch {
        Ch { src: Source::Odo { digits: prefix.to_vec(), pos: 0 }, rec: Vec::new(), shape_drift: false }
    }
}

/// Odometer whose first `pinned` digits are fixed.
pub struct Pinned {
    pub ch: Ch,
    pub pinned: usize,
}
impl Pinned {
    pub fn new(prefix: &[(u32, u32)]) -> Pinned {
        Pinned { ch: Ch::odo_with_prefix(prefix), pinned: prefix.len() }
    }
    pub fn advance(&mut self) -> bool {
        self.ch.rec.clear();
        if let Source::Odo { digits, pos } = &mut self.ch.src {
            digits.truncate((*pos).max(self.pinned));
            *pos = 0;
            while digits.len() > self.pinned {
                let (v, n) = *digits.last().unwrap();
                if v + 1 < n {
                    let l = digits.len();
                    digits[l - 1].0 = v + 1;
                    return true;
                }
                digits.pop();
            }
        }
        false
    }
}

//! Instrumented `#[global_allocator]` (DESIGN.md §2.3) and the guard-block primitive shared
//! with the user-defined `GuardMem` backend.
//!
//! Inside a *window* (opened around library calls; suspended inside harness callbacks) every
//! allocation is tracked per thread: guard zones on both sides, poison fill, relocation on
//! every realloc, poisoned quarantine on free, layout bookkeeping.  Huge or invalid requests
//! are served *virtually* by a small block so the process survives and the request is logged.
//! No function in the allocator path allocates or touches lazily-initialised TLS.

use std::alloc::{GlobalAlloc, Layout, System};
use std::cell::{Cell, UnsafeCell};

use crate::elem::POISON;

pub const GUARD: usize = 64;
pub const GUARD_BYTE: u8 = 0xFD;
pub const VIRT_LIMIT: usize = 128 << 20;
pub const VIRT_SIZE: usize = 512 << 10;

pub const F_BAD_LAYOUT: u32 = 1; // invalid layout reached the allocator
pub const F_LAYOUT_MISMATCH: u32 = 2; // dealloc/realloc with a layout other than the allocation's
pub const F_OOB_WRITE: u32 = 4; // guard zone damaged
pub const F_UAF_WRITE: u32 = 8; // quarantined (freed) block written
pub const F_BAD_FREE: u32 = 16; // free/realloc of a dangling, interior or already freed pointer
pub const F_TABLE_FULL: u32 = 32; // harness limitation (inconclusive)

pub fn flag_names(f: u32) -> String {
    let mut v = Vec::new();
    if f & F_BAD_LAYOUT != 0 {
        v.push("invalid-layout-reached-allocator");
    }
    if f & F_LAYOUT_MISMATCH != 0 {
        v.push("dealloc/realloc-layout-mismatch");
    }
    if f & F_OOB_WRITE != 0 {
        v.push("out-of-bounds-write(guard zone)");
    }
    if f & F_UAF_WRITE != 0 {
        v.push("write-after-free(quarantine)");
    }
    if f & F_BAD_FREE != 0 {
        v.push("free-of-invalid-pointer");
    }
    if f & F_TABLE_FULL != 0 {
        v.push("harness-table-full");
    }
    v.join("+")
}

#[derive(Clone, Copy)]
pub struct GuardBlock {
    pub real: *mut u8,
    pub real_size: usize,
    pub real_align: usize,
    pub user: *mut u8,
    /// bytes really usable at `user`
    pub actual: usize,
    /// bytes the requester asked for (== actual unless served virtually)
    pub req_size: usize,
    pub req_align: usize,
    pub virt: bool,
}

impl GuardBlock {
    pub const NULL: GuardBlock = GuardBlock {
        real: std::ptr::null_mut(),
        real_size: 0,
        real_align: 1,
        user: std::ptr::null_mut(),
        actual: 0,
        req_size: 0,
        req_align: 1,
        virt: false,
    };

    /// Allocate straight from the system allocator (never re-enters the tracked path).
    pub unsafe fn new(req_size: usize, req_align: usize, virt: bool) -> GuardBlock {
        let align = if req_align.is_power_of_two() && req_align <= 4096 { req_align } else { 16 };
        let actual = if virt { VIRT_SIZE } else { req_size };
        let front = (GUARD + align - 1) / align * align;
        let real_align = align.max(16);
        let real_size = front + actual + GUARD;
        let real = System.alloc(Layout::from_size_align_unchecked(real_size, real_align));
        if real.is_null() {
            std::process::abort();
        }
        std::ptr::write_bytes(real, GUARD_BYTE, front);
        std::ptr::write_bytes(real.add(front), POISON, actual);
        std::ptr::write_bytes(real.add(front + actual), GUARD_BYTE, GUARD);
        GuardBlock { real, real_size, real_align, user: real.add(front), actual, req_size, req_align, virt }
    }

    pub unsafe fn guards_intact(&self) -> bool {
        let front = self.user as usize - self.real as usize;
        for i in 0..front {
            if *self.real.add(i) != GUARD_BYTE {
                return false;
            }
        }
        let back = self.user.add(self.actual);
        for i in 0..GUARD {
            if *back.add(i) != GUARD_BYTE {
                return false;
            }
        }
        true
    }

    pub unsafe fn poison(&self) {
        std::ptr::write_bytes(self.user, POISON, self.actual);
    }

    pub unsafe fn all_poison(&self) -> bool {
        // word-wise scan
        let s = std::slice::from_raw_parts(self.user, self.actual);
        s.iter().all(|&b| b == POISON)
    }

    pub unsafe fn release(&self) {
        System.dealloc(self.real, Layout::from_size_align_unchecked(self.real_size, self.real_align));
    }

    pub fn contains(&self, p: *const u8) -> bool {
        let p = p as usize;
        p >= self.real as usize && p < self.real as usize + self.real_size
    }
}

const TABLE: usize = 128;
const QUAR: usize = 48;

#[derive(Clone, Copy)]
pub struct Rec {
    pub blk: GuardBlock,
    pub during_panic: bool,
}

struct AState {
    depth: Cell<u32>,
    n: Cell<usize>,
    table: UnsafeCell<[Rec; TABLE]>,
    qn: Cell<usize>,
    qhead: Cell<usize>,
    quar: UnsafeCell<[GuardBlock; QUAR]>,
    allocs: Cell<u64>,
    reallocs: Cell<u64>,
    deallocs: Cell<u64>,
    flags: Cell<u32>,
    // numeric detail of the first flagged event
    d_ptr: Cell<usize>,
    d_size: Cell<usize>,
    d_align: Cell<usize>,
    d_size2: Cell<usize>,
    d_align2: Cell<usize>,
}

thread_local! {
    static ST: AState = const { AState {
        depth: Cell::new(0),
        n: Cell::new(0),
        table: UnsafeCell::new([Rec{ blk: GuardBlock::NULL, during_panic: false }; TABLE]),
        qn: Cell::new(0),
        qhead: Cell::new(0),
        quar: UnsafeCell::new([GuardBlock::NULL; QUAR]),
        allocs: Cell::new(0), reallocs: Cell::new(0), deallocs: Cell::new(0),
        flags: Cell::new(0),
        d_ptr: Cell::new(0), d_size: Cell::new(0), d_align: Cell::new(0), d_size2: Cell::new(0), d_align2: Cell::new(0),
    } };
}

fn flag(st: &AState, f: u32, ptr: usize, size: usize, align: usize, size2: usize, align2: usize) {
    if st.flags.get() == 0 {
        st.d_ptr.set(ptr);
        st.d_size.set(size);
        st.d_align.set(align);
        st.d_size2.set(size2);
        st.d_align2.set(align2);
    }
    st.flags.set(st.flags.get() | f);
}

pub fn layout_valid(size: usize, align: usize) -> bool {
    align != 0 && align.is_power_of_two() && size <= (isize::MAX as usize) - (align - 1)
}

unsafe fn quarantine_push(st: &AState, blk: GuardBlock) {
    if !blk.guards_intact() {
        flag(st, F_OOB_WRITE, blk.user as usize, blk.req_size, blk.req_align, 0, 0);
    }
    blk.poison();
    let q = &mut *st.quar.get();
    if st.qn.get() == QUAR {
        // evict the oldest
        let h = st.qhead.get();
        let old = q[h];
        if !old.all_poison() || !old.guards_intact() {
            flag(st, F_UAF_WRITE, old.user as usize, old.req_size, old.req_align, 0, 0);
        }
        old.release();
        q[h] = blk;
        st.qhead.set((h + 1) % QUAR);
    } else {
        let idx = (st.qhead.get() + st.qn.get()) % QUAR;
        q[idx] = blk;
        st.qn.set(st.qn.get() + 1);
    }
}

unsafe fn tracked_alloc(st: &AState, size: usize, align: usize) -> *mut u8 {
    let panicking = std::thread::panicking();
    let valid = layout_valid(size, align);
    if !valid {
        flag(st, F_BAD_LAYOUT, 0, size, align, 0, 0);
    }
    let virt = !valid || size > VIRT_LIMIT;
    if st.n.get() == TABLE {
        flag(st, F_TABLE_FULL, 0, size, align, 0, 0);
        return System.alloc(Layout::from_size_align_unchecked(size, align));
    }
    let blk = GuardBlock::new(size, align, virt);
    let t = &mut *st.table.get();
    t[st.n.get()] = Rec { blk, during_panic: panicking };
    st.n.set(st.n.get() + 1);
    if !panicking {
        st.allocs.set(st.allocs.get() + 1);
    }
    blk.user
}

fn find(st: &AState, p: *mut u8) -> Option<usize> {
    let t = unsafe { &*st.table.get() };
    (0..st.n.get()).find(|&i| t[i].blk.user == p)
}

unsafe fn remove_at(st: &AState, i: usize) -> Rec {
    let t = &mut *st.table.get();
    let r = t[i];
    let n = st.n.get();
    t[i] = t[n - 1];
    st.n.set(n - 1);
    r
}

/// Is `p` a pointer the tracked world knows to be invalid to free?
fn bad_pointer(st: &AState, p: *mut u8) -> bool {
    if (p as usize) < 4096 {
        return true; // dangling "align as pointer"
    }
    let t = unsafe { &*st.table.get() };
    for i in 0..st.n.get() {
        if t[i].blk.contains(p) {
            return true; // interior pointer
        }
    }
    let q = unsafe { &*st.quar.get() };
    for k in 0..st.qn.get() {
        if q[(st.qhead.get() + k) % QUAR].contains(p) {
            return true; // already freed
        }
    }
    false
}

pub struct VerifAlloc;

unsafe impl GlobalAlloc for VerifAlloc {
    unsafe fn alloc(&self, l: Layout) -> *mut u8 {
        match ST.try_with(|st| if st.depth.get() > 0 { tracked_alloc(st, l.size(), l.align()) } else { std::ptr::null_mut() }) {
            Ok(p) if !p.is_null() => p,
            _ => System.alloc(l),
        }
    }

    unsafe fn dealloc(&self, p: *mut u8, l: Layout) {
        let handled = ST
            .try_with(|st| {
                if let Some(i) = find(st, p) {
                    let r = remove_at(st, i);
                    if r.blk.req_size != l.size() || r.blk.req_align != l.align() {
                        flag(st, F_LAYOUT_MISMATCH, p as usize, r.blk.req_size, r.blk.req_align, l.size(), l.align());
                    }
                    if st.depth.get() > 0 && !std::thread::panicking() {
                        st.deallocs.set(st.deallocs.get() + 1);
                    }
                    quarantine_push(st, r.blk);
                    true
                } else if st.depth.get() > 0 && bad_pointer(st, p) {
                    flag(st, F_BAD_FREE, p as usize, l.size(), l.align(), 0, 0);
                    true // swallow: keeps the process alive
                } else {
                    false
                }
            })
            .unwrap_or(false);
        if !handled {
            System.dealloc(p, l)
        }
    }

    unsafe fn realloc(&self, p: *mut u8, l: Layout, new_size: usize) -> *mut u8 {
        let r = ST
            .try_with(|st| {
                if let Some(i) = find(st, p) {
                    let old = (*st.table.get())[i];
                    if old.blk.req_size != l.size() || old.blk.req_align != l.align() {
                        flag(st, F_LAYOUT_MISMATCH, p as usize, old.blk.req_size, old.blk.req_align, l.size(), l.align());
                    }
                    let in_window = st.depth.get() > 0 && !std::thread::panicking();
                    // allocate the new block (always relocates)
                    let a0 = st.allocs.get();
                    let np = tracked_alloc(st, new_size, l.align());
                    st.allocs.set(a0);
                    if in_window {
                        st.reallocs.set(st.reallocs.get() + 1);
                    }
                    let newblk_actual = match find(st, np) {
                        Some(j) => (*st.table.get())[j].blk.actual,
                        None => new_size,
                    };
                    let n = old.blk.actual.min(newblk_actual).min(old.blk.req_size).min(new_size);
                    std::ptr::copy_nonoverlapping(p, np, n);
                    let i = find(st, p).unwrap();
                    let r = remove_at(st, i);
                    quarantine_push(st, r.blk);
                    Some(np)
                } else if st.depth.get() > 0 && bad_pointer(st, p) {
                    flag(st, F_BAD_FREE, p as usize, l.size(), l.align(), 0, 0);
                    // serve a fresh block so the caller can continue
                    Some(tracked_alloc(st, new_size, l.align()))
                } else {
                    None
                }
            })
            .unwrap_or(None);
        match r {
            Some(np) => np,
            None => System.realloc(p, l, new_size),
        }
    }
}

// ---------------------------------------------------------------------------------------
// harness-facing API

/// RAII: open an allocator window (library call in progress).
pub struct Window(u32);
pub fn window() -> Window {
    ST.with(|st| {
        let d = st.depth.get();
        st.depth.set(d + 1);
        Window(d)
    })
}
impl Drop for Window {
    fn drop(&mut self) {
        let _ = ST.try_with(|st| st.depth.set(self.0));
    }
}

/// RAII: suspend the window while harness code (callbacks) runs.
pub struct Suspend(u32);
#[inline]
pub fn suspend() -> Suspend {
    ST.try_with(|st| {
        let d = st.depth.get();
        st.depth.set(0);
        Suspend(d)
    })
    .unwrap_or(Suspend(0))
}
impl Drop for Suspend {
    #[inline]
    fn drop(&mut self) {
        let _ = ST.try_with(|st| st.depth.set(self.0));
    }
}

#[derive(Clone, Copy, Debug, Default, PartialEq, Eq)]
pub struct Events {
    pub allocs: u64,
    pub reallocs: u64,
    pub deallocs: u64,
}
impl Events {
    pub fn total(&self) -> u64 {
        self.allocs + self.reallocs + self.deallocs
    }
}

pub fn events() -> Events {
    ST.with(|st| Events { allocs: st.allocs.get(), reallocs: st.reallocs.get(), deallocs: st.deallocs.get() })
}

/// Live tracked blocks (user pointer, requested size, requested align, served virtually).
pub fn live_blocks() -> Vec<(usize, usize, usize, bool)> {
    ST.with(|st| {
        let t = unsafe { &*st.table.get() };
        (0..st.n.get()).map(|i| (t[i].blk.user as usize, t[i].blk.req_size, t[i].blk.req_align, t[i].blk.virt)).collect()
    })
}

pub fn live_count() -> usize {
    ST.with(|st| st.n.get())
}

/// Verify guard zones of all live blocks and the poison of all quarantined ones.
pub fn verify_all() {
    ST.with(|st| unsafe {
        let t = &*st.table.get();
        for i in 0..st.n.get() {
            if !t[i].blk.guards_intact() {
                flag(st, F_OOB_WRITE, t[i].blk.user as usize, t[i].blk.req_size, t[i].blk.req_align, 0, 0);
            }
        }
        let q = &*st.quar.get();
        for k in 0..st.qn.get() {
            let b = q[(st.qhead.get() + k) % QUAR];
            if !b.all_poison() || !b.guards_intact() {
                flag(st, F_UAF_WRITE, b.user as usize, b.req_size, b.req_align, 0, 0);
            }
        }
    })
}

/// Flags raised so far (sticky) with a description of the first event.
pub fn flags() -> Option<(u32, String)> {
    ST.with(|st| {
        let f = st.flags.get();
        if f == 0 {
            None
        } else {
            Some((
                f,
                format!(
                    "{} [first event: ptr={:#x} size={} align={} / other size={} align={}]",
                    flag_names(f),
                    st.d_ptr.get(),
                    st.d_size.get(),
                    st.d_align.get(),
                    st.d_size2.get(),
                    st.d_align2.get()
                ),
            ))
        }
    })
}

/// Start of a case: release everything still tracked/quarantined, clear counters and flags.
pub fn reset() {
    ST.with(|st| unsafe {
        // tracked blocks still alive here were leaked by the previous case (already judged there);
        // forget them (their memory is really leaked, bounded by case count * small sizes).
        let t = &mut *st.table.get();
        for i in 0..st.n.get() {
            t[i].blk.release();
        }
        st.n.set(0);
        let q = &*st.quar.get();
        for k in 0..st.qn.get() {
            q[(st.qhead.get() + k) % QUAR].release();
        }
        st.qn.set(0);
        st.qhead.set(0);
        st.allocs.set(0);
        st.reallocs.set(0);
        st.deallocs.set(0);
        st.flags.set(0);
        st.depth.set(0);
    })
}

/// Re-poison a region inside a live tracked block (harness re-poisons spare capacity).
pub fn block_of(p: usize) -> Option<(usize, usize, usize, bool)> {
    ST.with(|st| {
        let t = unsafe { &*st.table.get() };
        (0..st.n.get()).find(|&i| t[i].blk.user as usize == p).map(|i| (t[i].blk.user as usize, t[i].blk.req_size, t[i].blk.req_align, t[i].blk.virt))
    })
}

//! C09: lazy clones – creation/copy/drop clone nothing; each consumption clones exactly once.

use std::fmt::Write;

use any_vec::any_value::{AnyValue, AnyValueCloneable, LazyClone};

use crate::elem::{reg, Elem};
use crate::tset::{LazyVisitor, TSet};
use crate::world::*;

/// consumption kinds of one lazy clone
pub const LC_PUSH: u8 = 0;
pub const LC_INSERT0: u8 = 1;
pub const LC_DOWNCAST: u8 = 2;
pub const LC_DROP: u8 = 3;
pub const LC_SPLICE: u8 = 4;
pub const LC_SPLICE_REPLACE: u8 = 5;
pub const LC_KINDS: u8 = 6;
pub const LC_NAMES: [&str; 6] = ["push", "insert(0)", "downcast", "drop-unconsumed", "splice-insert-at-end", "splice-replace-first"];

pub struct LazyPlay<'a, C: Cfg> {
    pub dst: &'a mut V<C>,
    pub depth: u32,
    /// consumption of the original lazy clone and of each `LazyClone::clone` copy
    pub consume: &'a [u8],
    pub owned: &'a mut Vec<C::T>,
    /// registry clone_calls observed right after creating/copying all lazies, before any consumption
    pub clones_after_creation: &'a mut u64,
}

fn consume_one<C: Cfg, L: AnyValue>(lc: L, how: u8, dst: &mut V<C>, owned: &mut Vec<C::T>) {
    match how {
        LC_PUSH => dst.push(lc),
        LC_INSERT0 => dst.insert(0, lc),
        LC_DOWNCAST => owned.push(lc.downcast::<C::T>().expect("downcast of a lazy clone to the real type failed")),
        LC_SPLICE => {
            let n = dst.len();
            let it = dst.splice(n..n, [lc]);
            drop(it);
        }
        LC_SPLICE_REPLACE => {
            // same-length replacement of the first element (pure insertion when empty)
            let k = dst.len().min(1);
            let it = dst.splice(0..k, [lc]);
            drop(it);
        }
        _ => drop(lc),
    }
}

fn play_chain<C: Cfg, L: AnyValue + Clone>(lc: L, p: LazyPlay<'_, C>) {
    // copies first (no clone of the element may happen here) ...
    let mut copies: [Option<L>; 4] = [None, None, None, None];
    for k in 1..p.consume.len().min(4) {
        copies[k] = Some(lc.clone());
    }
    copies[0] = Some(lc);
    *p.clones_after_creation = reg(|r| r.clone_calls);
    // ... then the consumptions
    for (k, how) in p.consume.iter().enumerate().take(4) {
        if let Some(l) = copies[k].take() {
            consume_one::<C, L>(l, *how, p.dst, p.owned);
        }
    }
}

impl<'a, C: Cfg> LazyVisitor for LazyPlay<'a, C> {
    type Out = ();
    fn visit<Val: AnyValueCloneable + AnyValue>(self, v: &Val) {
        match self.depth {
            1 => play_chain::<C, LazyClone<'_, Val>>(v.lazy_clone(), self),
            2 => {
                let l1 = v.lazy_clone();
                play_chain::<C, _>(l1.lazy_clone(), self)
            }
            _ => {
                let l1 = v.lazy_clone();
                let l2 = l1.lazy_clone();
                play_chain::<C, _>(l2.lazy_clone(), self)
            }
        }
    }
}

impl<C: Cfg> World<C> {
    /// source kinds: 0 ElementRef, 1 ElementMut, 2 drained element, 3 pop, 4 remove, 5 swap_remove handle
    pub fn do_lazy(&mut self, v: usize, w: usize, kind: u32, j: usize, depth: u32, consume: &[u8], tr: &mut String) {
        const KN: [&str; 7] = ["ElementRef", "ElementMut", "drained Element", "Pop handle", "Remove handle", "SwapRemove handle", "second drained Element"];
        let mut kind = kind % 7;
        if kind == 6 && self.model[w].len() < 2 {
            kind = 2;
        }
        let names: Vec<&str> = consume.iter().map(|c| LC_NAMES[(*c % LC_KINDS) as usize]).collect();
        let _ = write!(tr, "lazy_clone({} of v{}[{}], depth {}, consume {:?} -> v{})", KN[kind as usize], w, j, depth, names, v);
        let wlen = self.model[w].len();
        if !<C::Tr as TSet>::CLONEABLE || wlen == 0 {
            let _ = write!(tr, " [skipped]");
            return;
        }
        let j = if kind == 3 { wlen - 1 } else if kind == 6 { 1 + j % (wlen - 1) } else { j % wlen };
        // destination admission: plan only consumptions the destination can take
        let mut consume: Vec<u8> = consume.iter().map(|c| c % LC_KINDS).collect();
        let mut room = match self.flav[v].fixed_cap() {
            Some(c) => c.saturating_sub(self.model[v].len()),
            None => usize::MAX,
        };
        for c in consume.iter_mut() {
            if matches!(*c, LC_PUSH | LC_INSERT0 | LC_SPLICE) {
                if room == 0 {
                    *c = LC_DROP;
                } else {
                    room -= 1;
                }
            }
            if *c == LC_SPLICE_REPLACE && self.model[v].is_empty() {
                if room == 0 {
                    *c = LC_DROP;
                } else {
                    room -= 1;
                }
            }
        }
        // each splice-replace on a non-empty destination destroys the element it replaces
        let mut replaced_in_dst = 0usize;
        {
            let mut dlen = self.model[v].len();
            for c in consume.iter() {
                match *c {
                    LC_PUSH | LC_INSERT0 | LC_SPLICE => dlen += 1,
                    LC_SPLICE_REPLACE => {
                        if dlen == 0 {
                            dlen = 1;
                        } else {
                            replaced_in_dst += 1;
                        }
                    }
                    _ => {}
                }
            }
        }
        let mut owned: Vec<C::T> = Vec::with_capacity(5);
        let mut after_creation = 0u64;
        let clones0 = reg(|r| r.clone_calls);
        let drops0 = reg(|r| r.drop_calls);
        let src_id = self.snapshot(w)[j].id;
        let cloned0 = if C::T::TRACKED && !C::T::ZST { reg(|r| r.entries[src_id as usize].cloned) } else { 0 };
        let r = {
            let (dst, wv) = self.two(v, w);
            let owned = &mut owned;
            let ac = &mut after_creation;
            let consume = &consume[..];
            call(move || {
                let play = LazyPlay::<C> { dst, depth, consume, owned, clones_after_creation: ac };
                match kind {
                    0 => {
                        let e = wv.at(j);
                        <C::Tr as TSet>::lazy_elem(&*e, play);
                    }
                    1 => {
                        let e = wv.at_mut(j);
                        <C::Tr as TSet>::lazy_elem(&*e, play);
                    }
                    2 => {
                        let mut d = wv.drain(j..j + 1);
                        let e = d.next().expect("drain of one element yielded nothing");
                        <C::Tr as TSet>::lazy_elem(&e, play);
                        drop(e);
                        drop(d);
                    }
                    6 => {
                        // drain two elements; the lazy clone is taken of the *second* one
                        let mut d = wv.drain(j - 1..j + 1);
                        let first = d.next().expect("drain of two elements yielded nothing");
                        let e = d.next().expect("drain of two elements yielded only one");
                        <C::Tr as TSet>::lazy_elem(&e, play);
                        drop(e);
                        drop(first);
                        drop(d);
                    }
                    3 => {
                        let h = wv.pop().expect("pop on a non-empty vector returned None");
                        <C::Tr as TSet>::lazy_pop(&h, play);
                        drop(h);
                    }
                    4 => {
                        let h = wv.remove(j);
                        <C::Tr as TSet>::lazy_remove(&h, play);
                        drop(h);
                    }
                    _ => {
                        let h = wv.swap_remove(j);
                        <C::Tr as TSet>::lazy_swap_remove(&h, play);
                        drop(h);
                    }
                }
            })
        };
        self.expect_panic("lazy_clone", &r, false, "");
        let n_consumed = consume.iter().filter(|c| **c != LC_DROP).count();
        if n_consumed > 0 || depth >= 2 || kind >= 2 {
            self.nontrivial = true;
        }
        self.class("lazy-clone");
        let p = self.model[w][j];
        // model: destination
        for c in consume.iter() {
            match *c {
                LC_PUSH | LC_SPLICE => self.model[v].push(p),
                LC_INSERT0 => self.model[v].insert(0, p),
                LC_SPLICE_REPLACE => {
                    if self.model[v].is_empty() {
                        self.model[v].push(p);
                    } else {
                        self.model[v][0] = p;
                    }
                }
                _ => {}
            }
        }
        // model: source
        match kind {
            6 => {
                self.model[w].remove(j);
                self.model[w].remove(j - 1);
            }
            2 | 4 => {
                self.model[w].remove(j);
            }
            3 => {
                self.model[w].pop();
            }
            5 => {
                self.model[w].swap_remove(j);
            }
            _ => {}
        }
        if C::T::COUNTS_CLONES {
            self.expect_clones += n_consumed as u64;
        }
        if r.is_err() || self.dead() {
            drop(owned);
            return;
        }
        if C::T::COUNTS_CLONES && after_creation != clones0 {
            self.fail(MON_CLONE, "lazy:clone-on-creation", format!("creating/copying lazy clones ran element Clone {} time(s)", after_creation - clones0));
            drop(owned);
            return;
        }
        if C::T::TRACKED {
            if after_creation != clones0 {
                self.fail(MON_CLONE, "lazy:clone-on-creation", format!("creating/copying lazy clones ran element Clone {} time(s)", after_creation - clones0));
                drop(owned);
                return;
            }
            if !C::T::ZST {
                let cloned1 = reg(|r| r.entries[src_id as usize].cloned);
                if (cloned1 - cloned0) as usize != n_consumed {
                    self.fail(MON_CLONE, "lazy:source-clone-count", format!("{} consumption(s) of lazy clones cloned the original element (id {}) {} time(s)", n_consumed, src_id, cloned1 - cloned0));
                    drop(owned);
                    return;
                }
            }
            // dropping lazies destroys nothing: only the removal kinds destroy exactly the source
            let expected_drops = (if kind == 6 { 2 } else if kind >= 2 { 1 } else { 0 }) + replaced_in_dst as u64;
            let drops1 = reg(|r| r.drop_calls);
            if drops1 - drops0 != expected_drops {
                self.fail(MON_CLONE | MON_OWN, "lazy:drops", format!("lazy clone play destroyed {} element(s), expected {}", drops1 - drops0, expected_drops));
                drop(owned);
                return;
            }
        }
        for o in owned.iter() {
            if o.payload() != Some(p) {
                self.fail(MON_CLONE | MON_MODEL, "lazy:downcast-value", format!("downcast of a lazy clone produced payload {:?}, source has {}", o.payload(), p));
                break;
            }
        }
        drop(owned);
    }
}

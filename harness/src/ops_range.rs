//! drain / splice with every range form, replacement source and consumption pattern.

use std::fmt::Write;
use std::mem::ManuallyDrop;
use std::ops::Bound;
use std::ptr::NonNull;

use any_vec::any_value::{AnyValue, AnyValueRaw, AnyValueWrapper};
use any_vec::element::Element;

use crate::elem::{reg, user_code_tick, Elem};
use crate::tset::{IterVisitor, TSet};
use crate::world::*;

pub const N_FORMS: u32 = 9;

pub fn bounds_of(form: u32, x: usize, y: usize) -> (Bound<usize>, Bound<usize>) {
    match form {
        0 => (Bound::Included(x), Bound::Excluded(y)),
        1 => (Bound::Included(x), Bound::Included(y)),
        2 => (Bound::Unbounded, Bound::Excluded(y)),
        3 => (Bound::Unbounded, Bound::Included(y)),
        4 => (Bound::Included(x), Bound::Unbounded),
        5 => (Bound::Unbounded, Bound::Unbounded),
        6 => (Bound::Excluded(x), Bound::Excluded(y)),
        7 => (Bound::Excluded(x), Bound::Included(y)),
        _ => (Bound::Excluded(x), Bound::Unbounded),
    }
}

/// The oracle: what `Vec::drain` accepts. `None` = must panic.
pub fn oracle_range(b: (Bound<usize>, Bound<usize>), len: usize) -> Option<(usize, usize)> {
    let start = match b.0 {
        Bound::Included(i) => Some(i),
        Bound::Excluded(i) => i.checked_add(1),
        Bound::Unbounded => Some(0),
    }?;
    let end = match b.1 {
        Bound::Included(i) => i.checked_add(1),
        Bound::Excluded(i) => Some(i),
        Bound::Unbounded => Some(len),
    }?;
    if start > end || end > len {
        None
    } else {
        Some((start, end))
    }
}

pub fn fmt_range(form: u32, x: usize, y: usize) -> String {
    let f = |v: usize| if v > usize::MAX - 4 { format!("MAX-{}", usize::MAX - v) } else { v.to_string() };
    match form {
        0 => format!("{}..{}", f(x), f(y)),
        1 => format!("{}..={}", f(x), f(y)),
        2 => format!("..{}", f(y)),
        3 => format!("..={}", f(y)),
        4 => format!("{}..", f(x)),
        5 => "..".into(),
        6 => format!("(Excluded({}),Excluded({}))", f(x), f(y)),
        7 => format!("(Excluded({}),Included({}))", f(x), f(y)),
        _ => format!("(Excluded({}),Unbounded)", f(x)),
    }
}

/// Call `vec.method(range [, extra])` with the *native* range type of each form.
macro_rules! range_call {
    ($vec:expr, $method:ident, $form:expr, $x:expr, $y:expr $(, $extra:expr)?) => {
        match $form {
            0 => $vec.$method($x..$y $(, $extra)?),
            1 => $vec.$method($x..=$y $(, $extra)?),
            2 => $vec.$method(..$y $(, $extra)?),
            3 => $vec.$method(..=$y $(, $extra)?),
            4 => $vec.$method($x.. $(, $extra)?),
            5 => $vec.$method(.. $(, $extra)?),
            f => $vec.$method(bounds_of(f, $x, $y) $(, $extra)?),
        }
    };
}

/// Replacement iterator for splice: owns its items, counts `next` as user code (fault point),
/// may misreport its length by `lie`.
pub struct Repl<T> {
    items: std::vec::IntoIter<T>,
    lie: isize,
}
impl<T> Repl<T> {
    pub fn new(items: Vec<T>, lie: isize) -> Self {
        Repl { items: items.into_iter(), lie }
    }
}
impl<T> Iterator for Repl<T> {
    type Item = T;
    fn next(&mut self) -> Option<T> {
        {
            let _s = crate::alloc::suspend();
            user_code_tick("next");
        }
        self.items.next()
    }
    fn size_hint(&self) -> (usize, Option<usize>) {
        let n = self.len();
        (n, Some(n))
    }
}
impl<T> ExactSizeIterator for Repl<T> {
    fn len(&self) -> usize {
        (self.items.len() as isize + self.lie).max(0) as usize
    }
}
impl<T> Drop for Repl<T> {
    fn drop(&mut self) {
        // dropping unconsumed replacement values is the harness's business, not a fault point
        let _s = crate::alloc::suspend();
        let was = reg(|r| std::mem::replace(&mut r.in_lib, false));
        for x in self.items.by_ref() {
            drop(x);
        }
        reg(|r| r.in_lib = was);
    }
}

/// Replacement iterator yielding non-owning raw values (`AnyValueRaw`).
pub struct ReplRaw<T: 'static> {
    items: Vec<ManuallyDrop<T>>,
    next: usize,
}
impl<T: 'static> ReplRaw<T> {
    pub fn new(items: Vec<T>) -> Self {
        let _s = crate::alloc::suspend();
        ReplRaw { items: items.into_iter().map(ManuallyDrop::new).collect(), next: 0 }
    }
}
impl<T: 'static> Iterator for ReplRaw<T> {
    type Item = AnyValueRaw;
    fn next(&mut self) -> Option<AnyValueRaw> {
        {
            let _s = crate::alloc::suspend();
            user_code_tick("next");
        }
        if self.next >= self.items.len() {
            return None;
        }
        let p = NonNull::from(&mut *self.items[self.next]).cast::<u8>();
        self.next += 1;
        // ownership of the pointee passes to the consumer
        Some(unsafe { AnyValueRaw::new(p, std::mem::size_of::<T>(), std::any::TypeId::of::<T>()) })
    }
    fn size_hint(&self) -> (usize, Option<usize>) {
        let n = self.items.len() - self.next;
        (n, Some(n))
    }
}
impl<T: 'static> ExactSizeIterator for ReplRaw<T> {}
impl<T: 'static> Drop for ReplRaw<T> {
    fn drop(&mut self) {
        let _s = crate::alloc::suspend();
        let was = reg(|r| std::mem::replace(&mut r.in_lib, false));
        for i in self.next..self.items.len() {
            unsafe { ManuallyDrop::drop(&mut self.items[i]) };
        }
        reg(|r| r.in_lib = was);
    }
}

#[derive(Clone, Copy, Debug, PartialEq, Eq)]
pub enum ReplKind {
    Wrapper,
    Raw,
    DrainOfW,
    LazyOfW,
}
pub const REPL_KINDS: &[ReplKind] = &[ReplKind::Wrapper, ReplKind::Raw, ReplKind::DrainOfW, ReplKind::LazyOfW];

#[derive(Clone, Copy, Debug, PartialEq, Eq)]
pub enum ItemSink {
    Drop,
    Downcast,
    DowncastUnchecked,
    MovePush,
    Forget,
}

#[derive(Clone, Debug)]
pub struct RangeOp {
    pub v: usize,
    pub form: u32,
    pub x: usize,
    pub y: usize,
    pub typed: bool,
    /// next (false) / next_back (true) calls, in order
    pub calls: Vec<bool>,
    pub sinks: Vec<ItemSink>,
    pub w: usize,
    pub forget_iter: bool,
    pub splice: bool,
    pub repl_kind: ReplKind,
    pub repl_len: usize,
    /// DrainOfW / LazyOfW: start of the range of w used as the replacement
    pub wa: usize,
    pub lie: isize,
    /// `nth(k)` is called once, before `calls` (skipped items are destroyed, item k is handed out)
    pub skip: Option<usize>,
}

type HintBad = Option<(usize, (usize, Option<usize>), usize, usize)>;

/// Everything the consumption loop needs; all buffers are pre-sized (no harness allocation
/// inside the library window).
pub struct Cx<'a, C: Cfg> {
    calls: &'a [bool],
    sinks: &'a [ItemSink],
    n_items: usize,
    forget_iter: bool,
    seen: &'a mut Vec<(bool, Option<u32>)>,
    owned: &'a mut Vec<C::T>,
    hint_bad: &'a mut HintBad,
    dst: Option<&'a mut V<C>>,
    skip: Option<usize>,
}

fn consume_erased<'e, C: Cfg, I>(mut it: I, cx: &mut Cx<'_, C>)
where
    I: DoubleEndedIterator<Item = Element<'e, C::Tr, C::M>> + ExactSizeIterator,
{
    let mut yielded = 0usize;
    if let Some(n) = cx.skip {
        match it.nth(n) {
            None => cx.seen.push((false, None)),
            Some(e) => {
                let p = e.downcast_ref::<C::T>().and_then(|x| x.payload());
                cx.seen.push((false, Some(p.unwrap_or(u32::MAX))));
                drop(e);
            }
        }
        yielded = n.saturating_add(1).min(cx.n_items);
    }
    for (k, back) in cx.calls.iter().enumerate() {
        let remaining = cx.n_items - yielded.min(cx.n_items);
        let sh = it.size_hint();
        let l = it.len();
        if (sh != (remaining, Some(remaining)) || l != remaining) && cx.hint_bad.is_none() {
            *cx.hint_bad = Some((k, sh, l, remaining));
        }
        let e = if *back { it.next_back() } else { it.next() };
        match e {
            None => cx.seen.push((*back, None)),
            Some(e) => {
                yielded += 1;
                let p = e.downcast_ref::<C::T>().and_then(|x| x.payload());
                cx.seen.push((*back, Some(p.unwrap_or(u32::MAX))));
                match cx.sinks.get(k).copied().unwrap_or(ItemSink::Drop) {
                    ItemSink::Drop => drop(e),
                    ItemSink::Downcast => cx.owned.push(e.downcast::<C::T>().expect("downcast of a drained element to the real type failed")),
                    ItemSink::DowncastUnchecked => cx.owned.push(unsafe { any_vec::any_value::AnyValueSizeless::downcast_unchecked::<C::T>(e) }),
                    ItemSink::MovePush => match cx.dst.as_deref_mut() {
                        Some(d) => d.push(e),
                        None => drop(e),
                    },
                    ItemSink::Forget => std::mem::forget(e),
                }
            }
        }
    }
    if cx.forget_iter {
        std::mem::forget(it);
    } else {
        drop(it);
    }
}

fn consume_typed<C: Cfg, I>(mut it: I, cx: &mut Cx<'_, C>)
where
    I: DoubleEndedIterator<Item = C::T> + ExactSizeIterator,
{
    let mut yielded = 0usize;
    if let Some(n) = cx.skip {
        match it.nth(n) {
            None => cx.seen.push((false, None)),
            Some(e) => {
                cx.seen.push((false, Some(e.payload().unwrap_or(u32::MAX))));
                cx.owned.push(e);
            }
        }
        yielded = n.saturating_add(1).min(cx.n_items);
    }
    for (k, back) in cx.calls.iter().enumerate() {
        let remaining = cx.n_items - yielded.min(cx.n_items);
        let sh = it.size_hint();
        let l = it.len();
        if (sh != (remaining, Some(remaining)) || l != remaining) && cx.hint_bad.is_none() {
            *cx.hint_bad = Some((k, sh, l, remaining));
        }
        let e = if *back { it.next_back() } else { it.next() };
        match e {
            None => cx.seen.push((*back, None)),
            Some(e) => {
                yielded += 1;
                cx.seen.push((*back, Some(e.payload().unwrap_or(u32::MAX))));
                match cx.sinks.get(k).copied().unwrap_or(ItemSink::Drop) {
                    ItemSink::MovePush => match cx.dst.as_deref_mut() {
                        Some(d) => d.downcast_mut::<C::T>().unwrap().push(e),
                        None => cx.owned.push(e),
                    },
                    ItemSink::Forget => std::mem::forget(e),
                    _ => cx.owned.push(e),
                }
            }
        }
    }
    if cx.forget_iter {
        std::mem::forget(it);
    } else {
        drop(it);
    }
}

fn erased_splice<C: Cfg, I>(vec: &mut V<C>, form: u32, x: usize, y: usize, repl: I, cx: &mut Cx<'_, C>)
where
    I: ExactSizeIterator,
    I::Item: AnyValue,
{
    let it = range_call!(vec, splice, form, x, y, repl);
    consume_erased::<C, _>(it, cx)
}

struct LazySplice<'a, 'c, C: Cfg> {
    vec: &'a mut V<C>,
    form: u32,
    x: usize,
    y: usize,
    cx: &'a mut Cx<'c, C>,
}
impl<'a, 'c, C: Cfg> IterVisitor for LazySplice<'a, 'c, C> {
    type Out = ();
    fn visit<I: ExactSizeIterator>(self, it: I)
    where
        I::Item: AnyValue,
    {
        erased_splice::<C, I>(self.vec, self.form, self.x, self.y, it, self.cx)
    }
}

impl<C: Cfg> World<C> {
    pub fn do_range(&mut self, op: &RangeOp, tr: &mut String) {
        let name = if op.splice { "splice" } else { "drain" };
        let v = op.v;
        let w = op.w;
        let len = self.model[v].len();
        let bounds = bounds_of(op.form, op.x, op.y);
        let want_range = oracle_range(bounds, len);
        let mut pat: String = op.calls.iter().map(|b| if *b { 'B' } else { 'F' }).collect();
        if let Some(n) = op.skip {
            pat = format!("nth({}) {}", n, pat);
        }
        let _ = write!(tr, "{}{}(v{}, {}", if op.typed { "typed." } else { "" }, name, v, fmt_range(op.form, op.x, op.y));
        let mut repl_kind = op.repl_kind;
        if op.typed {
            repl_kind = ReplKind::Wrapper;
        }
        if repl_kind == ReplKind::LazyOfW && !<C::Tr as TSet>::CLONEABLE {
            repl_kind = ReplKind::Wrapper;
        }
        let from_w = op.splice && matches!(repl_kind, ReplKind::DrainOfW | ReplKind::LazyOfW);
        let wlen = self.model[w].len();
        let (wa, wb) = if from_w {
            let a = op.wa.min(wlen);
            (a, (a + op.repl_len).min(wlen))
        } else {
            (0, 0)
        };
        let mut repl_payloads: Vec<u32> = Vec::new();
        let mut repl_vals: Vec<C::T> = Vec::new();
        if op.splice {
            if from_w {
                repl_payloads = self.model[w][wa..wb].to_vec();
            } else {
                for _ in 0..op.repl_len {
                    let p = self.fresh();
                    repl_payloads.push(C::T::norm(p));
                    repl_vals.push(C::T::make(p));
                }
            }
            let _ = write!(tr, ", repl={:?}{:?}", repl_kind, repl_payloads);
            if op.lie != 0 {
                let _ = write!(tr, " len-lie {:+}", op.lie);
            }
        }
        // sinks: moving into w is only planned while w can take the items
        let mut sinks: Vec<ItemSink> = op.sinks.clone();
        sinks.resize(op.calls.len(), ItemSink::Drop);
        {
            let mut room = match self.flav[w].fixed_cap() {
                Some(c) => c.saturating_sub(wlen),
                None => usize::MAX,
            };
            for s in sinks.iter_mut() {
                if *s == ItemSink::MovePush {
                    if from_w || room == 0 {
                        *s = ItemSink::Drop;
                    } else {
                        room -= 1;
                    }
                }
                if *s == ItemSink::Forget && !self.spec.allow_forget {
                    *s = ItemSink::Drop;
                }
            }
        }
        let forget_iter = op.forget_iter && self.spec.allow_forget;
        let _ = write!(tr, ", consume \"{}\" sinks {:?}{})", pat, sinks, if forget_iter { " then FORGET" } else { "" });

        {
            // will the operation panic by itself? (invalid range / result beyond a fixed capacity)
            let will_exceed = match (want_range, self.flav[v].fixed_cap()) {
                (Some((a, b)), Some(c)) if op.splice && !forget_iter => len - (b - a) + (repl_payloads.len() as isize + op.lie).max(0) as usize > c,
                _ => false,
            };
            if want_range.is_none() || will_exceed {
                self.self_panicking_op();
            }
        }
        if crate::world::trace_live() {
            eprintln!("     range op: {}", &tr[tr.len().saturating_sub(200)..]);
        }
        let n_items = want_range.map(|(a, b)| b - a).unwrap_or(0);
        let mut seen: Vec<(bool, Option<u32>)> = Vec::with_capacity(op.calls.len() + 2);
        let mut owned: Vec<C::T> = Vec::with_capacity(op.calls.len() + 2);
        let mut hint_bad: HintBad = None;
        let (form, x, y, lie, typed, splice, skip) = (op.form, op.x, op.y, op.lie, op.typed, op.splice, op.skip);

        let r = {
            let p = self.vecs.as_mut_ptr();
            // SAFETY: v != w (callers guarantee), both slots are populated
            let vec: &mut V<C> = unsafe { (*p.add(v)).as_mut().unwrap() };
            let wv: &mut V<C> = unsafe { (*p.add(w)).as_mut().unwrap() };
            let seen = &mut seen;
            let owned = &mut owned;
            let hint_bad = &mut hint_bad;
            let repl_vals = &mut repl_vals;
            let calls = &op.calls[..];
            let sinks = &sinks[..];
            call(move || {
                let mut cx = Cx::<C> { calls, sinks, n_items, forget_iter, seen, owned, hint_bad, dst: None, skip };
                if !typed {
                    if !splice {
                        cx.dst = Some(wv);
                        let it = range_call!(vec, drain, form, x, y);
                        consume_erased::<C, _>(it, &mut cx);
                    } else {
                        match repl_kind {
                            ReplKind::Wrapper => {
                                cx.dst = Some(wv);
                                let repl = Repl::new(std::mem::take(repl_vals), lie).map(AnyValueWrapper::new);
                                erased_splice::<C, _>(vec, form, x, y, repl, &mut cx);
                            }
                            ReplKind::Raw => {
                                cx.dst = Some(wv);
                                let repl = ReplRaw::new(std::mem::take(repl_vals));
                                erased_splice::<C, _>(vec, form, x, y, repl, &mut cx);
                            }
                            ReplKind::DrainOfW => {
                                let repl = wv.drain(wa..wb);
                                erased_splice::<C, _>(vec, form, x, y, repl, &mut cx);
                            }
                            ReplKind::LazyOfW => {
                                let wv: &V<C> = &*wv;
                                let refs_buf: Vec<any_vec::element::ElementRef<C::Tr, C::M>> = {
                                    let _s = crate::alloc::suspend();
                                    (wa..wb).map(|i| wv.at(i)).collect()
                                };
                                <C::Tr as TSet>::lazy_iter(&refs_buf[..], LazySplice::<C> { vec, form, x, y, cx: &mut cx });
                                let _s = crate::alloc::suspend();
                                drop(refs_buf);
                            }
                        }
                    }
                } else {
                    cx.dst = Some(wv);
                    let mut tv = vec.downcast_mut::<C::T>().unwrap();
                    let b = bounds_of(form, x, y);
                    if !splice {
                        let it = tv.drain(b);
                        consume_typed::<C, _>(it, &mut cx);
                    } else {
                        let repl = Repl::new(std::mem::take(repl_vals), lie);
                        let it = tv.splice(b, repl);
                        consume_typed::<C, _>(it, &mut cx);
                    }
                }
            })
        };
        drop(repl_vals);

        // ---- verdict -------------------------------------------------------------------
        if from_w {
            // the replacement drain of w removes its range whatever happens to the splice
            if repl_kind == ReplKind::DrainOfW {
                self.model[w].drain(wa..wb);
            }
        }
        let Some((a, b)) = want_range else {
            self.expect_panic(name, &r, true, "invalid range");
            self.nontrivial = true;
            self.class("invalid-range");
            drop(owned);
            return;
        };
        let removed: Vec<u32> = self.model[v][a..b].to_vec();
        let new_len = len - (b - a) + if splice { (repl_payloads.len() as isize + 0) as usize } else { 0 };
        let cap_bad = splice && op.lie == 0 && !forget_iter && matches!(self.flav[v].fixed_cap(), Some(c) if new_len > c);
        if b > a || (splice && !repl_payloads.is_empty()) {
            self.nontrivial = true;
        }
        if op.calls.iter().any(|b| *b) {
            self.class("next_back");
        }
        if op.calls.len() < b - a {
            self.class("partial-consumption");
        }
        if new_len != len {
            self.class("length-changing");
        }
        // items observed
        let (mut lo, mut hi) = (0usize, removed.len());
        let mut want_seen: Vec<(bool, Option<u32>)> = Vec::new();
        let mut moved: Vec<u32> = Vec::new();
        let mut forgotten_items = 0usize;
        if let Some(n) = op.skip {
            // nth(n): n items are skipped (destroyed), the next one is handed out
            lo = n.min(hi);
            if lo < hi {
                want_seen.push((false, Some(removed[lo])));
                lo += 1;
            } else {
                want_seen.push((false, None));
            }
            self.class("drain-nth");
            self.nontrivial = true;
        }
        for (k, back) in op.calls.iter().enumerate() {
            if lo == hi {
                want_seen.push((*back, None));
                continue;
            }
            let p = if *back {
                hi -= 1;
                removed[hi]
            } else {
                lo += 1;
                removed[lo - 1]
            };
            want_seen.push((*back, Some(p)));
            match sinks[k] {
                ItemSink::MovePush => moved.push(p),
                ItemSink::Forget => forgotten_items += 1,
                _ => {}
            }
        }
        let damage = forget_iter || op.lie != 0 || cap_bad;
        if cap_bad {
            self.expect_panic(name, &r, true, "result exceeds the fixed capacity");
            self.class("capacity-exceeded");
        } else if op.lie == 0 {
            self.expect_panic(name, &r, false, "");
        } else if let Err(Panicked::Msg(m)) = &r {
            // a lying iterator may make the operation panic; that is acceptable
            let _ = m;
        }
        if self.dead() {
            drop(owned);
            return;
        }
        if let Some((k, sh, l, rem)) = hint_bad {
            self.fail(MON_ITER | MON_MODEL, format!("{}:size_hint", name), format!("{}: before call {} size_hint() = {:?}, len() = {} but {} items remain", name, k, sh, l, rem));
            drop(owned);
            return;
        }
        if r.is_ok() && seen != want_seen {
            self.fail(
                MON_MODEL | MON_ITER,
                format!("{}:yielded", name),
                format!("{} over {:?} with pattern \"{}\" yielded {:?}, Vec::{} yields {:?}", name, (a, b), pat, seen, name, want_seen),
            );
            drop(owned);
            return;
        }
        // owned values handed out (Downcast sink / typed items): payloads were checked through `seen`
        drop(owned);
        self.model[w].extend(moved.iter().copied());
        if !moved.is_empty() {
            self.class("moved-between-vectors");
        }
        if forgotten_items > 0 {
            self.forgot = true;
            self.class("forgot-item");
        }
        if C::T::TRACKED && !C::T::ZST {
            self.permitted_leaks += forgotten_items;
        } else if C::T::TRACKED {
            self.zst_leaks += forgotten_items as i64;
        }
        if damage {
            // only validity is promised; [0,a) must be untouched
            let prefix: Vec<u32> = self.model[v][..a].to_vec();
            let original: Vec<u32> = self.model[v].clone();
            self.resync_after_damage(v);
            if !self.dead() && op.lie == 0 {
                // by value: what was handed out (moved out) must not be visible any more, nothing may
                // appear more often than it existed (old elements + replacement values)
                let mut budget: Vec<u32> = original.clone();
                budget.extend(repl_payloads.iter().copied());
                let mut used: Vec<u32> = want_seen.iter().filter_map(|x| x.1).collect();
                used.extend(self.model[v].iter().copied());
                let mut dup = None;
                for x in used {
                    match budget.iter().position(|b| *b == x) {
                        Some(p) => {
                            budget.swap_remove(p);
                        }
                        None => {
                            dup = Some(x);
                            break;
                        }
                    }
                }
                if let Some(x) = dup {
                    self.fail(
                        MON_VALID,
                        format!("{}:moved-out-still-visible", name),
                        format!("after leaking the {} iterator the value {} is visible in the vector although it was handed out / exists only once (vector now {:?}, was {:?}, yielded {:?})", name, x, self.model[v], original, want_seen),
                    );
                }
            }
            if !self.dead() && !cap_bad && op.lie == 0 {
                if self.model[v].len() < a || self.model[v][..a] != prefix[..] {
                    self.fail(MON_VALID, format!("{}:forget-prefix", name), format!("after forgetting the {} iterator the elements before index {} changed: {:?} -> {:?}", name, a, prefix, self.model[v]));
                }
            }
            if from_w {
                self.resync_after_damage(w);
            }
            self.recount_leaks();
            self.class("damage");
            if forget_iter {
                self.forgot = true;
                self.class("forgot-iterator");
            }
            return;
        }
        // final sequence
        let tail: Vec<u32> = self.model[v][b..].to_vec();
        self.model[v].truncate(a);
        if splice {
            self.model[v].extend(repl_payloads.iter().copied());
            if repl_kind == ReplKind::LazyOfW {
                self.expect_clones += repl_payloads.len() as u64;
                self.class("lazy-clone");
            }
        }
        self.model[v].extend(tail);
    }
}

#![allow(non_camel_case_types, unused_imports, unused_doc_comments, unused_mut, dead_code)]
//! anyvec_pbt: property-based testing / fuzzing harness for tower120/any_vec (see /verif/DESIGN.md).
#![allow(clippy::type_complexity)]

pub mod alloc;
pub mod backend;
pub mod cases;
pub mod choices;
pub mod configs;
pub mod driver;
pub mod elem;
pub mod grid;
pub mod ops_lazy;
pub mod ops_misc;
pub mod ops_range;
pub mod ops_remove;
pub mod ops_views;
pub mod props;
pub mod tset;
#[cfg(feature = "lib_alloc")]
pub mod typepairs;
pub mod world;

#[global_allocator]
static GLOBAL: alloc::VerifAlloc = alloc::VerifAlloc;

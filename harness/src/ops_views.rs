//! C12: byte / slice / spare views and storage alignment under placement.

use std::fmt::Write;
use std::mem::MaybeUninit;

use any_vec::AnyVec;

use crate::backend::{Backend, Flavour};
use crate::elem::Elem;
use crate::world::*;

#[repr(C, align(64))]
pub struct Arena(pub [MaybeUninit<u8>; 8192]);

impl<C: Cfg> World<C> {
    /// Address arithmetic over every view of slot v. Only integer comparisons until the
    /// storage pointer is known to be aligned.
    pub fn do_views(&mut self, v: usize, tr: &mut String) {
        let _ = write!(tr, "views(v{})", v);
        let size = C::T::SIZE;
        let align = C::T::ALIGN;
        let len = self.model[v].len();
        let vec = self.vecs[v].as_mut().unwrap();
        let cap = vec.capacity();
        let fl = self.flav[v];
        let r = call(|| {
            let b = vec.as_bytes();
            let (bp, bl) = (b.as_ptr() as usize, b.len());
            let bm = vec.as_bytes_mut();
            let (bmp, bml) = (bm.as_ptr() as usize, bm.len());
            let sp = vec.spare_bytes_mut();
            let (spp, spl) = (sp.as_ptr() as usize, sp.len());
            (bp, bl, bmp, bml, spp, spl)
        });
        self.expect_panic_m(MON_VIEW, "views", &r, false, "");
        let Ok((bp, bl, bmp, bml, spp, spl)) = r else { return };
        if len > 0 && len < cap {
            self.nontrivial = true;
        }
        if align > 8 || (size != 0 && size != 8) {
            self.nontrivial = true;
        }
        if bp % align != 0 {
            self.fail(
                MON_VIEW,
                "views:misaligned-storage",
                format!("storage pointer {:#x} of a {} vector (len {}, capacity {}) is not aligned to {} (element {})", bp, fl.name(), len, cap, align, C::T::NAME),
            );
            return;
        }
        let spare_elems = if size == 0 { 0 } else { cap - len };
        let mut problem: Option<String> = None;
        if bl != len * size || bml != len * size {
            problem = Some(format!("as_bytes/as_bytes_mut cover {}/{} bytes, expected len x size = {}", bl, bml, len * size));
        } else if bmp != bp {
            problem = Some("as_bytes_mut starts at a different address than as_bytes".into());
        } else if size > 0 && (spp != bp + len * size || spl != spare_elems * size) {
            problem = Some(format!(
                "spare_bytes_mut starts at storage offset {} and covers {} bytes; expected offset len x size = {} and (capacity - len) x size = {} (len {}, capacity {}, size {})",
                spp.wrapping_sub(bp),
                spl,
                len * size,
                spare_elems * size,
                len,
                cap,
                size
            ));
        }
        if let Some(p) = problem {
            self.fail(MON_VIEW, "views:byte-regions", p);
            return;
        }
        // aligned: the typed views may be formed
        let vec = self.vecs[v].as_mut().unwrap();
        let r = call(|| {
            let t = vec.downcast_ref::<C::T>().unwrap();
            let p1 = t.as_ptr() as usize;
            let s = t.as_slice();
            let (sp1, sl1) = (s.as_ptr() as usize, s.len());
            let tl = t.len();
            let tc = t.capacity();
            let mut tm = vec.downcast_mut::<C::T>().unwrap();
            let p2 = tm.as_mut_ptr() as usize;
            let ms = tm.as_mut_slice();
            let (sp2, sl2) = (ms.as_ptr() as usize, ms.len());
            let sc = tm.spare_capacity_mut();
            let (scp, scl) = (sc.as_ptr() as usize, sc.len());
            (p1, sp1, sl1, tl, tc, p2, sp2, sl2, scp, scl)
        });
        self.expect_panic_m(MON_VIEW, "views", &r, false, "");
        let Ok((p1, sp1, sl1, tl, tc, p2, sp2, sl2, scp, scl)) = r else { return };
        let mut problem: Option<String> = None;
        if p1 != bp || p2 != bp || sp1 != bp || sp2 != bp {
            problem = Some("typed as_ptr/as_mut_ptr/as_slice/as_mut_slice do not alias the byte view".into());
        } else if sl1 != len || sl2 != len || tl != len {
            problem = Some(format!("typed slices have {}/{} elements, typed len() {}, expected {}", sl1, sl2, tl, len));
        } else if tc != cap {
            problem = Some(format!("typed capacity() {} differs from capacity() {}", tc, cap));
        } else if scl != cap - len || (size > 0 && scp != bp + len * size) {
            problem = Some(format!("spare_capacity_mut covers {} elements at offset {}; expected {} at {}", scl, scp.wrapping_sub(bp), cap - len, len * size));
        }
        if let Some(p) = problem {
            self.fail(MON_VIEW, "views:typed-regions", p);
        }
    }
}

/// Placement: the vector value is moved to every admissible offset inside a 64-byte aligned
/// arena; the storage pointer must be aligned wherever the vector lives, also when empty.
pub fn placement_case<C: Cfg>(w: &mut World<C>, fl: Flavour, off_idx: usize, len: usize, tr: &mut String) {
    let valign = std::mem::align_of::<V<C>>();
    let vsize = std::mem::size_of::<V<C>>();
    let off = off_idx * valign;
    let _ = write!(tr, "{} vector ({} B, align {}) placed at arena offset {}, then {} pushes", fl.name(), vsize, valign, off, len);
    if off + vsize > 8000 {
        let _ = write!(tr, " [does not fit the arena: skipped]");
        return;
    }
    let mut arena: Box<Arena> = Box::new(Arena([MaybeUninit::uninit(); 8192]));
    let base = arena.0.as_mut_ptr() as *mut u8;
    let tag = w.next_tag;
    w.next_tag += 1;
    let b = C::M::builder(fl, tag);
    let r = call(|| AnyVec::<C::Tr, C::M>::new_in::<C::T>(b));
    let Ok(vec) = r else {
        w.fail(MON_VIEW | MON_MODEL, "placement:construct", "constructing the vector panicked");
        return;
    };
    let slot = unsafe { base.add(off) as *mut V<C> };
    unsafe { std::ptr::write(slot, vec) };
    let vref: &mut V<C> = unsafe { &mut *slot };
    let align = C::T::ALIGN;
    w.nontrivial = align > 8 || off != 0;
    let mut pushed = 0usize;
    let cap = fl.fixed_cap().unwrap_or(usize::MAX);
    loop {
        let p = vref.as_bytes().as_ptr() as usize;
        if p % align != 0 {
            w.fail(
                MON_VIEW,
                "placement:misaligned-storage",
                format!(
                    "storage pointer {:#x} is not aligned to {} for element {} with the {} vector at address ...{:#x} (arena offset {}), len {}",
                    p,
                    align,
                    C::T::NAME,
                    fl.name(),
                    (slot as usize) & 0xfff,
                    off,
                    pushed
                ),
            );
            break;
        }
        if pushed >= len || pushed >= cap {
            break;
        }
        let val = C::T::make(pushed as u32 + 1);
        let r = call(|| vref.downcast_mut::<C::T>().unwrap().push(val));
        if r.is_err() {
            w.fail(MON_VIEW | MON_MODEL, "placement:push", "typed push panicked");
            break;
        }
        pushed += 1;
        // contents readable through the byte view
        let ok = C::T::ZST || vref.as_bytes().chunks_exact(C::T::SIZE).enumerate().all(|(i, ch)| C::T::see(ch).payload == Some(C::T::norm(i as u32 + 1)));
        if !ok || vref.len() != pushed {
            w.fail(MON_VIEW | MON_MODEL, "placement:contents", "elements pushed at this placement do not read back through as_bytes");
            break;
        }
    }
    // move the vector out again and drop it
    let vec = unsafe { std::ptr::read(slot) };
    let r = call(move || drop(vec));
    if r.is_err() {
        w.fail(MON_MODEL, "placement:drop", "dropping the vector panicked");
    }
    drop(arena);
}

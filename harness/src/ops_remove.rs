//! pop / remove / swap_remove with every sink; clear; get/at; whole-vector iteration.

use std::fmt::Write;

use any_vec::any_value::{AnyValue, AnyValueMut};

use crate::elem::{reg, Elem};
use crate::tset::TSet;
use crate::world::*;

#[derive(Clone, Copy, Debug, PartialEq, Eq)]
pub enum RemKind {
    Pop,
    Remove,
    SwapRemove,
}

/// Consume a removal handle according to `sink`. Returns an owned value to inspect, if any.
/// `other`: destination for Move*/LazyClone sinks.
macro_rules! consume_handle {
    ($C:ty, $h:expr, $sink:expr, $other:expr, $ins_at:expr, $newval:expr, $lazy:ident) => {{
        let mut h = $h;
        match $sink {
            Sink::Drop => {
                drop(h);
                None
            }
            Sink::Downcast => Some((h.downcast::<<$C as Cfg>::T>().expect("downcast to the real type failed"), None)),
            Sink::DowncastUnchecked => Some((unsafe { any_vec::any_value::AnyValueSizeless::downcast_unchecked::<<$C as Cfg>::T>(h) }, None)),
            Sink::DowncastRefThenDrop => {
                let seen = h.downcast_ref::<<$C as Cfg>::T>().map(|r| r.payload());
                drop(h);
                match seen {
                    Some(p) => return_seen(p),
                    None => panic!("downcast_ref to the real type failed"),
                }
            }
            Sink::MovePush => {
                $other.push(h);
                None
            }
            Sink::MoveInsert => {
                $other.insert($ins_at, h);
                None
            }
            Sink::MutateThenDowncast => {
                let mut nv = $newval.take().unwrap();
                std::mem::swap(h.downcast_mut::<<$C as Cfg>::T>().expect("downcast_mut to the real type failed"), &mut nv);
                let got = h.downcast::<<$C as Cfg>::T>().expect("downcast to the real type failed");
                Some((nv, Some(got)))
            }
            Sink::LazyCloneThenDrop => {
                <<$C as Cfg>::Tr as TSet>::$lazy(&h, LazyInto::<$C> { dst: Dst { vec: $other, at: None, unchecked: false }, depth: 1 });
                drop(h);
                None
            }
            Sink::Forget => {
                std::mem::forget(h);
                None
            }
            Sink::Typed => unreachable!(),
        }
    }};
}

/// marker result for DowncastRefThenDrop: carry the observed payload out without an owned value
fn return_seen<T>(p: Option<u32>) -> Option<(T, Option<T>)> {
    SEEN.with(|s| s.set(Some(p)));
    None
}
thread_local! {
    static SEEN: std::cell::Cell<Option<Option<u32>>> = const { std::cell::Cell::new(None) };
}

impl<C: Cfg> World<C> {
    /// pop/remove/swap_remove on slot `v`, value consumed by `sink` (destination slot `w`).
    #[allow(clippy::too_many_arguments)]
    pub fn do_remove(&mut self, kind: RemKind, v: usize, idx: usize, sink: Sink, w: usize, ins_at: usize, tr: &mut String) {
        let len = self.model[v].len();
        let name = match kind {
            RemKind::Pop => "pop",
            RemKind::Remove => "remove",
            RemKind::SwapRemove => "swap_remove",
        };
        let _ = write!(tr, "{}(v{}", name, v);
        if kind != RemKind::Pop {
            let _ = write!(tr, ", {}", idx);
        }
        let _ = write!(tr, ", sink={:?}", sink);
        let oob = match kind {
            RemKind::Pop => len == 0,
            _ => idx >= len,
        };
        let mut sink = sink;
        if sink == Sink::LazyCloneThenDrop && !<C::Tr as TSet>::CLONEABLE {
            sink = Sink::Drop;
        }
        let moves = matches!(sink, Sink::MovePush | Sink::MoveInsert | Sink::LazyCloneThenDrop);
        if moves {
            let _ = write!(tr, " -> v{}", w);
            if sink == Sink::MoveInsert {
                let _ = write!(tr, "[{}]", ins_at);
            }
        }
        let _ = write!(tr, ")");
        // destination admission
        let wlen = self.model[w].len();
        let dst_bad = moves
            && ((sink == Sink::MoveInsert && ins_at > wlen) || matches!(self.flav[w].fixed_cap(), Some(c) if wlen >= c));
        if oob || dst_bad {
            self.self_panicking_op();
        }
        let mut newval = if sink == Sink::MutateThenDowncast {
            let p = self.fresh();
            Some((p, C::T::make(p)))
        } else {
            None
        };
        let new_payload = newval.as_ref().map(|x| x.0);
        let mut nv_only = newval.take().map(|x| x.1);
        SEEN.with(|s| s.set(None));

        let r: Result<Option<(C::T, Option<C::T>)>, Panicked> = if sink == Sink::Typed {
            let vec = self.vecs[v].as_mut().unwrap();
            call(|| {
                let mut t = vec.downcast_mut::<C::T>().unwrap();
                match kind {
                    RemKind::Pop => t.pop().map(|x| (x, None)),
                    RemKind::Remove => Some((t.remove(idx), None)),
                    RemKind::SwapRemove => Some((t.swap_remove(idx), None)),
                }
            })
        } else {
            let (vec, other) = self.two(v, w);
            call(|| match kind {
                RemKind::Pop => match vec.pop() {
                    None => None,
                    Some(h) => consume_handle!(C, h, sink, other, ins_at, nv_only, lazy_pop),
                },
                RemKind::Remove => {
                    let h = vec.remove(idx);
                    consume_handle!(C, h, sink, other, ins_at, nv_only, lazy_remove)
                }
                RemKind::SwapRemove => {
                    let h = vec.swap_remove(idx);
                    consume_handle!(C, h, sink, other, ins_at, nv_only, lazy_swap_remove)
                }
            })
        };
        drop(nv_only);

        if oob {
            // pop on empty -> None; remove/swap_remove out of range -> panic; nothing changes
            let must = kind != RemKind::Pop;
            self.expect_panic(name, &r, must, "index out of range");
            if let Ok(Some(_)) = &r {
                self.fail(MON_MODEL, format!("{}:value-from-empty", name), format!("{} returned a value although the index is out of range", name));
            }
            self.nontrivial = true; // boundary index
            self.class("out-of-range");
            return;
        }
        let expected = match kind {
            RemKind::Pop => self.model[v].pop().unwrap(),
            RemKind::Remove => self.model[v].remove(idx),
            RemKind::SwapRemove => self.model[v].swap_remove(idx),
        };
        if idx == 0 || idx + 1 >= len {
            self.class("boundary-index");
        }
        self.nontrivial = true;
        match sink {
            Sink::MovePush | Sink::MoveInsert => {
                self.expect_panic(name, &r, dst_bad, "destination refuses the value");
                if !dst_bad {
                    let pos = if sink == Sink::MovePush { wlen } else { ins_at };
                    self.model[w].insert(pos, expected);
                    self.class("moved-between-vectors");
                }
            }
            Sink::LazyCloneThenDrop => {
                self.expect_panic(name, &r, dst_bad, "destination refuses the value");
                if !dst_bad {
                    self.model[w].push(expected);
                    self.expect_clones += 1;
                    self.class("lazy-clone");
                }
            }
            Sink::Forget => {
                self.expect_panic(name, &r, false, "");
                // documented: elements at or after the index may be lost (leaked)
                self.forgot_from(v, idx.min(self.model[v].len()), expected, kind);
            }
            _ => {
                self.expect_panic(name, &r, false, "");
            }
        }
        // returned / observed values
        if self.dead() {
            return;
        }
        match (&r, sink) {
            (Ok(Some((val, second))), Sink::MutateThenDowncast) => {
                // `val` is what was swapped out (the original element), `second` the value we put in
                let got_old = val.payload();
                let got_new = second.as_ref().and_then(|x| x.payload());
                if got_old != Some(expected) {
                    self.fail(MON_MODEL, format!("{}:returned", name), format!("{}: handle gave access to payload {:?}, Vec model removed {}", name, got_old, expected));
                } else if got_new != new_payload.map(C::T::norm) {
                    self.fail(MON_MODEL, format!("{}:mutated", name), format!("{}: value written through downcast_mut read back as {:?}, expected {:?}", name, got_new, new_payload));
                }
            }
            (Ok(Some((val, _))), _) => {
                let got = val.payload();
                if got != Some(expected) {
                    self.fail(MON_MODEL, format!("{}:returned", name), format!("{} returned payload {:?}, Vec model removed {}", name, got, expected));
                }
            }
            (Ok(None), Sink::DowncastRefThenDrop) => {
                let seen = SEEN.with(|s| s.get());
                if seen != Some(Some(expected)) {
                    self.fail(MON_MODEL, format!("{}:downcast_ref", name), format!("{}: downcast_ref on the handle saw {:?}, Vec model removed {}", name, seen, expected));
                }
            }
            (Ok(None), Sink::Typed) | (Ok(None), Sink::Downcast) | (Ok(None), Sink::DowncastUnchecked) => {
                self.fail(MON_MODEL, format!("{}:none", name), format!("{} returned nothing although the vector was not empty", name));
            }
            _ => {}
        }
        // values handed back to us are dropped here, outside any library call
        drop(r);
    }

    /// Model a forgotten removal handle: afterwards the vector is only required to be *valid*;
    /// resynchronise the model from what is visible (checked by the validity predicate).
    pub fn forgot_from(&mut self, v: usize, idx: usize, _expected: u32, kind: RemKind) {
        // model[v] already has the element removed; everything before `idx` must be untouched
        let prefix: Vec<u32> = self.model[v][..idx.min(self.model[v].len())].to_vec();
        self.resync_after_damage(v);
        self.recount_leaks();
        self.forgot = true;
        self.class("forgot-handle");
        if self.dead() {
            return;
        }
        if self.model[v].len() < prefix.len() || self.model[v][..prefix.len()] != prefix[..] {
            self.fail(MON_VALID, format!("{:?}:forget-prefix", kind), format!("after forgetting the {:?} handle at index {} the elements before it changed: expected prefix {:?}, vector is {:?}", kind, idx, prefix, self.model[v]));
        }
    }

    /// After a fault / forget: which elements survive is unspecified. Check the validity
    /// predicate on slot `v` and rebuild the model from the visible elements; everything
    /// alive but no longer reachable becomes a permitted leak.
    pub fn resync_after_damage(&mut self, v: usize) {
        if self.dead() {
            return;
        }
        let Some(vec) = self.vecs[v].as_ref() else { return };
        let len = vec.len();
        let cap = vec.capacity();
        if len > cap {
            self.fail(MON_VALID, "valid:len>cap", format!("after damage: len {} > capacity {}", len, cap));
            return;
        }
        if vec.as_bytes().len() != len * C::T::SIZE {
            self.fail(MON_VALID, "valid:as_bytes", "after damage: byte view does not cover len elements");
            return;
        }
        let snap = self.snapshot(v);
        let mut newm = Vec::with_capacity(snap.len());
        for (i, seen) in snap.iter().enumerate() {
            match seen.payload {
                Some(p) => newm.push(p),
                None => {
                    self.fail(MON_VALID, format!("valid:visible-{:?}", seen.slot), format!("after damage: element {} of slot {} is {} (id {})", i, v, seen.why_bad(), seen.id));
                    return;
                }
            }
        }
        self.model[v] = newm;
    }

    /// After all damaged slots were resynchronised: everything alive but no longer reachable
    /// is a permitted leak from now on.
    pub fn recount_leaks(&mut self) {
        if self.dead() {
            return;
        }
        let total: usize = (0..3).filter(|s| self.vecs[*s].is_some()).map(|s| self.model[s].len()).sum();
        if C::T::TRACKED && !C::T::ZST {
            let live = reg(|r| r.live);
            if live < total {
                self.fail(MON_VALID | MON_OWN, "valid:destroyed-visible", format!("after damage: {} elements alive but {} visible", live, total));
                return;
            }
            self.permitted_leaks = live - total;
        }
        if C::T::TRACKED && C::T::ZST {
            let live = reg(|r| r.zst_live);
            if live < total as i64 {
                self.fail(MON_VALID | MON_OWN, "valid:destroyed-visible", format!("after damage: {} zero-sized elements alive but {} visible", live, total));
                return;
            }
            self.zst_leaks = live - total as i64;
        }
        // clone counters are no longer predictable
        self.expect_clones = reg(|r| r.clone_calls);
    }

    pub fn do_clear(&mut self, v: usize, typed: bool, tr: &mut String) {
        let _ = write!(tr, "clear(v{}{})", v, if typed { ", typed" } else { "" });
        let vec = self.vecs[v].as_mut().unwrap();
        let r = call(|| {
            if typed {
                vec.downcast_mut::<C::T>().unwrap().clear()
            } else {
                vec.clear()
            }
        });
        self.expect_panic("clear", &r, false, "");
        if !self.model[v].is_empty() {
            self.nontrivial = true;
        }
        self.model[v].clear();
    }

    /// get/at/get_mut/at_mut, erased and typed, at index `idx` (may be out of range).
    pub fn do_get(&mut self, v: usize, idx: usize, view: u32, tr: &mut String) {
        const NV: u32 = 19;
        const NAMES: [&str; NV as usize] = ["get", "at", "get_mut", "at_mut", "typed.get", "typed.at", "typed.get_mut", "typed.at_mut", "iter.nth", "iter_mut.nth", "iter.skip.next", "iter.nth_back", "iter.next.nth", "iter.next_back^2.nth", "iter_mut.next.nth_back", "downcast_ref_unchecked.get", "downcast_mut_unchecked.get_mut", "get.downcast_ref_unchecked", "get_mut.downcast_mut_unchecked"];
        let name = NAMES[(view % NV) as usize];
        let _ = write!(tr, "{}(v{}, {})", name, v, idx);
        let len = self.model[v].len();
        let oob = idx >= len;
        let vec = self.vecs[v].as_mut().unwrap();
        let size = C::T::SIZE;
        let tid = std::any::TypeId::of::<C::T>();
        // observation: (payload via downcast_ref, typeid ok, size ok, bytes decode payload, ptr offset)
        type Obs = Option<(Option<u32>, bool, bool, Option<u32>, usize)>;
        let base = vec.as_bytes().as_ptr() as usize;
        let r: Result<Obs, Panicked> = call(|| match view % NV {
            0 => vec.get(idx).map(|e| (e.downcast_ref::<C::T>().and_then(|x| x.payload()), e.value_typeid() == tid, any_vec::any_value::AnyValueTypeless::size(&*e) == size, C::T::see(any_vec::any_value::AnyValueTypeless::as_bytes(&*e)).payload, any_vec::any_value::AnyValueSizeless::as_bytes_ptr(&*e) as usize)),
            1 => {
                let e = vec.at(idx);
                Some((e.downcast_ref::<C::T>().and_then(|x| x.payload()), e.value_typeid() == tid, any_vec::any_value::AnyValueTypeless::size(&*e) == size, C::T::see(any_vec::any_value::AnyValueTypeless::as_bytes(&*e)).payload, any_vec::any_value::AnyValueSizeless::as_bytes_ptr(&*e) as usize))
            }
            2 => vec.get_mut(idx).map(|mut e| {
                let p = e.downcast_mut::<C::T>().and_then(|x| x.payload());
                (p, e.value_typeid() == tid, any_vec::any_value::AnyValueTypeless::size(&*e) == size, C::T::see(any_vec::any_value::AnyValueTypeless::as_bytes(&*e)).payload, any_vec::any_value::AnyValueSizeless::as_bytes_ptr(&*e) as usize)
            }),
            3 => {
                let mut e = vec.at_mut(idx);
                let p = e.downcast_mut::<C::T>().and_then(|x| x.payload());
                Some((p, e.value_typeid() == tid, any_vec::any_value::AnyValueTypeless::size(&*e) == size, C::T::see(any_vec::any_value::AnyValueTypeless::as_bytes(&*e)).payload, any_vec::any_value::AnyValueSizeless::as_bytes_ptr(&*e) as usize))
            }
            4 => vec.downcast_ref::<C::T>().unwrap().get(idx).map(|x| (x.payload(), true, true, x.payload(), x as *const C::T as usize)),
            5 => {
                let x = vec.downcast_ref::<C::T>().unwrap().at(idx);
                Some((x.payload(), true, true, x.payload(), x as *const C::T as usize))
            }
            6 => vec.downcast_mut::<C::T>().unwrap().get_mut(idx).map(|x| (x.payload(), true, true, x.payload(), x as *const C::T as usize)),
            7 => {
                let x = vec.downcast_mut::<C::T>().unwrap().at_mut(idx);
                Some((x.payload(), true, true, x.payload(), x as *const C::T as usize))
            }
            // the i-th iterator item
            8 => vec.iter().nth(idx).map(|e| (e.downcast_ref::<C::T>().and_then(|x| x.payload()), e.value_typeid() == tid, any_vec::any_value::AnyValueTypeless::size(&*e) == size, C::T::see(any_vec::any_value::AnyValueTypeless::as_bytes(&*e)).payload, any_vec::any_value::AnyValueSizeless::as_bytes_ptr(&*e) as usize)),
            9 => vec.iter_mut().nth(idx).map(|mut e| {
                let p = e.downcast_mut::<C::T>().and_then(|x| x.payload());
                (p, e.value_typeid() == tid, any_vec::any_value::AnyValueTypeless::size(&*e) == size, C::T::see(any_vec::any_value::AnyValueTypeless::as_bytes(&*e)).payload, any_vec::any_value::AnyValueSizeless::as_bytes_ptr(&*e) as usize)
            }),
            10 => vec.iter().skip(idx).next().map(|e| (e.downcast_ref::<C::T>().and_then(|x| x.payload()), e.value_typeid() == tid, any_vec::any_value::AnyValueTypeless::size(&*e) == size, C::T::see(any_vec::any_value::AnyValueTypeless::as_bytes(&*e)).payload, any_vec::any_value::AnyValueSizeless::as_bytes_ptr(&*e) as usize)),
            // the unchecked downcasts (the type is the right one: they must agree with the checked ones)
            15 => unsafe { vec.downcast_ref_unchecked::<C::T>() }.get(idx).map(|x| (x.payload(), true, true, x.payload(), x as *const C::T as usize)),
            16 => unsafe { vec.downcast_mut_unchecked::<C::T>() }.get_mut(idx).map(|x| (x.payload(), true, true, x.payload(), x as *const C::T as usize)),
            17 => vec.get(idx).map(|e| {
                let x: &C::T = unsafe { e.downcast_ref_unchecked::<C::T>() };
                (x.payload(), e.value_typeid() == tid, any_vec::any_value::AnyValueTypeless::size(&*e) == size, x.payload(), x as *const C::T as usize)
            }),
            18 => vec.get_mut(idx).map(|mut e| {
                let (p, a) = {
                    let x: &mut C::T = unsafe { any_vec::any_value::AnyValueSizelessMut::downcast_mut_unchecked::<C::T>(&mut *e) };
                    (x.payload(), x as *const C::T as usize)
                };
                (p, e.value_typeid() == tid, any_vec::any_value::AnyValueTypeless::size(&*e) == size, p, a)
            }),
            // element idx reached through an iterator that was already advanced
            12 => {
                // one item taken from the front, then nth(idx-1)
                let mut it = vec.iter();
                if idx == 0 {
                    it.next()
                } else {
                    let _ = it.next();
                    it.nth(idx - 1)
                }
                .map(|e| (e.downcast_ref::<C::T>().and_then(|x| x.payload()), e.value_typeid() == tid, any_vec::any_value::AnyValueTypeless::size(&*e) == size, C::T::see(any_vec::any_value::AnyValueTypeless::as_bytes(&*e)).payload, any_vec::any_value::AnyValueSizeless::as_bytes_ptr(&*e) as usize))
            }
            13 => {
                // two items taken from the back first: indices >= len-2 are no longer reachable
                let mut it = vec.iter();
                let _ = it.next_back();
                let _ = it.next_back();
                it.nth(idx).map(|e| (e.downcast_ref::<C::T>().and_then(|x| x.payload()), e.value_typeid() == tid, any_vec::any_value::AnyValueTypeless::size(&*e) == size, C::T::see(any_vec::any_value::AnyValueTypeless::as_bytes(&*e)).payload, any_vec::any_value::AnyValueSizeless::as_bytes_ptr(&*e) as usize))
            }
            14 => {
                // one item taken from the front, then counted from the back
                let mut it = vec.iter_mut();
                let _ = it.next();
                let k = if idx < len { len - 1 - idx } else { idx };
                it.nth_back(k).map(|mut e| {
                    let p = e.downcast_mut::<C::T>().and_then(|x| x.payload());
                    (p, e.value_typeid() == tid, any_vec::any_value::AnyValueTypeless::size(&*e) == size, C::T::see(any_vec::any_value::AnyValueTypeless::as_bytes(&*e)).payload, any_vec::any_value::AnyValueSizeless::as_bytes_ptr(&*e) as usize)
                })
            }
            _ => {
                // counted from the back: element idx is nth_back(len-1-idx); beyond the end: nth_back(len + (idx-len))
                let k = if idx < len { len - 1 - idx } else { idx };
                vec.iter().nth_back(k).map(|e| (e.downcast_ref::<C::T>().and_then(|x| x.payload()), e.value_typeid() == tid, any_vec::any_value::AnyValueTypeless::size(&*e) == size, C::T::see(any_vec::any_value::AnyValueTypeless::as_bytes(&*e)).payload, any_vec::any_value::AnyValueSizeless::as_bytes_ptr(&*e) as usize))
            }
        });
        let is_at = view % NV < 8 && view % 2 == 1;
        // through an advanced iterator some in-range elements are no longer reachable
        let unreachable = match view % NV {
            13 => idx + 2 >= len && idx < len,
            14 => idx == 0 && len > 0,
            _ => false,
        };
        if unreachable {
            self.nontrivial = true;
            self.class("advanced-iterator");
            self.expect_panic(name, &r, false, "");
            if let Ok(Some(_)) = r {
                self.fail(MON_MODEL | MON_VIEW | MON_ITER, format!("{}:yielded-again", name), format!("{} at index {} returned an element the iterator had already handed out (len {})", name, idx, len));
            }
            return;
        }
        if oob {
            self.nontrivial = true;
            self.class("out-of-range");
            self.expect_panic(name, &r, is_at, "index out of range");
            if let Ok(Some(_)) = r {
                self.fail(MON_MODEL | MON_VIEW, format!("{}:some-oob", name), format!("{}({}) returned an element although len is {}", name, idx, len));
            }
            return;
        }
        if idx == 0 || idx + 1 == len {
            self.nontrivial = true;
            self.class("boundary-index");
        }
        self.expect_panic(name, &r, false, "");
        match r {
            Ok(None) => self.fail(MON_MODEL | MON_VIEW, format!("{}:none", name), format!("{}({}) returned None although len is {}", name, idx, len)),
            Ok(Some((p, tid_ok, size_ok, pb, ptr))) => {
                let want = self.model[v][idx];
                if p != Some(want) || pb != Some(want) {
                    self.fail(MON_MODEL | MON_VIEW, format!("{}:wrong-element", name), format!("{}({}) refers to payload {:?} (bytes {:?}), Vec model has {}", name, idx, p, pb, want));
                } else if !tid_ok || !size_ok {
                    self.fail(MON_VIEW, format!("{}:typeid/size", name), format!("{}({}) reports a wrong value_typeid or size", name, idx));
                } else if size > 0 && ptr != base + idx * size {
                    self.fail(MON_VIEW, format!("{}:address", name), format!("{}({}) points at offset {} instead of {}", name, idx, ptr.wrapping_sub(base), idx * size));
                }
            }
            Err(_) => {}
        }
    }

    /// Iterate the whole vector through one of the iterator kinds with an arbitrary string of
    /// next (false) / next_back (true) calls, possibly continuing past exhaustion. Kind 7 clones
    /// an `IterRef` after `clone_at` calls and advances original and clone independently.
    pub fn do_iter(&mut self, v: usize, kind: u32, calls: &[bool], clone_at: usize, tr: &mut String) {
        self.do_iter_ext(v, kind, calls, clone_at, &[], 0, tr)
    }

    /// `skips[k]` (if present and > 0): call k is `nth(skips[k]-1+...)`: it first skips that many
    /// items (nth / nth_back instead of next / next_back). `finish`: 0 drop, 1 count(), 2 last(),
    /// 3 rev().count() of what is left.
    #[allow(clippy::too_many_arguments)]
    pub fn do_iter_ext(&mut self, v: usize, kind: u32, calls: &[bool], clone_at: usize, skips: &[u8], finish: u32, tr: &mut String) {
        const NAMES: [&str; 10] = ["iter", "iter_mut", "(&v).into_iter", "(&mut v).into_iter", "typed.iter", "typed.iter_mut", "typed.as_slice.iter", "iter.clone", "AnyVecRef.into_iter", "AnyVecMut.into_iter"];
        let kind = kind % 10;
        let name = NAMES[kind as usize];
        let pat: String = calls.iter().map(|b| if *b { 'B' } else { 'F' }).collect();
        let _ = write!(tr, "{}(v{}, \"{}\"", name, v, pat);
        if skips.iter().any(|s| *s > 0) {
            let _ = write!(tr, ", nth-skips {:?}", skips);
        }
        if finish % 4 != 0 {
            let _ = write!(tr, ", finish {}", ["drop", "count", "last", "rev.count"][finish as usize % 4]);
        }
        if kind == 7 {
            let _ = write!(tr, ", clone after {} calls", clone_at.min(calls.len()));
        }
        let _ = write!(tr, ")");
        let len = self.model[v].len();
        let vec = self.vecs[v].as_mut().unwrap();
        let mut out: Vec<Option<u32>> = Vec::with_capacity(calls.len() + 1);
        let mut out2: Vec<Option<u32>> = Vec::with_capacity(len + calls.len() + 2);
        let mut hint_bad: Option<(usize, (usize, Option<usize>), usize, usize)> = None;
        macro_rules! walk {
            ($it:expr, $get:expr, $calls:expr, $out:expr, $done:expr, $use_skips:expr) => {{
                let mut yielded = $done;
                for (k, back) in $calls.iter().enumerate() {
                    let remaining = len - yielded.min(len);
                    let sh = $it.size_hint();
                    let l = $it.len();
                    if (sh != (remaining, Some(remaining)) || l != remaining) && hint_bad.is_none() {
                        hint_bad = Some((k, sh, l, remaining));
                    }
                    let sk = if $use_skips { skips.get(k).copied().unwrap_or(0) as usize } else { 0 };
                    let e = match (*back, sk) {
                        (false, 0) => $it.next(),
                        (true, 0) => $it.next_back(),
                        (false, n) => $it.nth(n),
                        (true, n) => $it.nth_back(n),
                    };
                    yielded += sk.min(remaining);
                    match e {
                        None => $out.push(None),
                        Some(e) => {
                            yielded += 1;
                            #[allow(clippy::redundant_closure_call)]
                            $out.push(Some(($get)(e).unwrap_or(u32::MAX)));
                        }
                    }
                }
                yielded
            }};
        }
        // what is left is consumed by an adaptor
        let mut fin_obs: Option<(usize, Option<u32>)> = None;
        macro_rules! finish {
            ($it:expr, $get:expr) => {{
                // an iterator whose bookkeeping is already off (reported below) is not driven
                // through an adaptor: count() over a wrapped-around length would never end
                let sane = hint_bad.is_none() && $it.len() <= len;
                match if sane { finish % 4 } else { 0 } {
                    1 => fin_obs = Some(($it.count(), None)),
                    2 => {
                        let l = $it.last();
                        #[allow(clippy::redundant_closure_call)]
                        {
                            fin_obs = Some((usize::MAX, l.map(|e| ($get)(e).unwrap_or(u32::MAX))));
                        }
                    }
                    3 => fin_obs = Some(($it.rev().count(), None)),
                    _ => drop($it),
                }
            }};
        }
        let ca = clone_at.min(calls.len());
        let r = call(|| match kind {
            0 => {
                let mut it = vec.iter();
                walk!(it, |e: any_vec::element::ElementRef<C::Tr, C::M>| e.downcast_ref::<C::T>().and_then(|x| x.payload()), calls, out, 0usize, true);
                finish!(it, |e: any_vec::element::ElementRef<C::Tr, C::M>| e.downcast_ref::<C::T>().and_then(|x| x.payload()));
            }
            1 => {
                let mut it = vec.iter_mut();
                walk!(it, |mut e: any_vec::element::ElementMut<C::Tr, C::M>| e.downcast_mut::<C::T>().and_then(|x| x.payload()), calls, out, 0usize, true);
                finish!(it, |mut e: any_vec::element::ElementMut<C::Tr, C::M>| e.downcast_mut::<C::T>().and_then(|x| x.payload()));
            }
            2 => {
                let mut it = (&*vec).into_iter();
                walk!(it, |e: any_vec::element::ElementRef<C::Tr, C::M>| e.downcast_ref::<C::T>().and_then(|x| x.payload()), calls, out, 0usize, true);
                finish!(it, |e: any_vec::element::ElementRef<C::Tr, C::M>| e.downcast_ref::<C::T>().and_then(|x| x.payload()));
            }
            3 => {
                let mut it = (&mut *vec).into_iter();
                walk!(it, |mut e: any_vec::element::ElementMut<C::Tr, C::M>| e.downcast_mut::<C::T>().and_then(|x| x.payload()), calls, out, 0usize, true);
                finish!(it, |mut e: any_vec::element::ElementMut<C::Tr, C::M>| e.downcast_mut::<C::T>().and_then(|x| x.payload()));
            }
            4 => {
                let mut it = vec.downcast_ref::<C::T>().unwrap().iter();
                walk!(it, |x: &C::T| x.payload(), calls, out, 0usize, true);
                finish!(it, |x: &C::T| x.payload());
            }
            5 => {
                let mut it = vec.downcast_mut::<C::T>().unwrap().iter_mut();
                walk!(it, |x: &mut C::T| x.payload(), calls, out, 0usize, true);
                finish!(it, |x: &mut C::T| x.payload());
            }
            6 => {
                let mut it = vec.downcast_ref::<C::T>().unwrap().as_slice().iter();
                walk!(it, |x: &C::T| x.payload(), calls, out, 0usize, true);
                finish!(it, |x: &C::T| x.payload());
            }
            8 => {
                let mut it = vec.downcast_ref::<C::T>().unwrap().into_iter();
                walk!(it, |x: &C::T| x.payload(), calls, out, 0usize, true);
                finish!(it, |x: &C::T| x.payload());
            }
            9 => {
                let mut it = vec.downcast_mut::<C::T>().unwrap().into_iter();
                walk!(it, |x: &mut C::T| x.payload(), calls, out, 0usize, true);
                finish!(it, |x: &mut C::T| x.payload());
            }
            _ => {
                let get = |e: any_vec::element::ElementRef<C::Tr, C::M>| e.downcast_ref::<C::T>().and_then(|x| x.payload());
                let mut it = vec.iter();
                let done = walk!(it, get, calls[..ca], out, 0usize, false);
                let mut cl = it.clone();
                // the clone continues with the rest of the string ...
                walk!(cl, get, calls[ca..], out, done, false);
                // ... the original independently drains everything front to back (+1 call)
                static FALSES: [bool; 2048] = [false; 2048];
                let rest = &FALSES[..(len + 1 - done.min(len)).min(2048)];
                walk!(it, get, rest, out2, done, false);
            }
        });
        self.expect_panic_m(MON_ITER | MON_MODEL, name, &r, false, "");
        if self.dead() {
            return;
        }
        if out.iter().any(|x| *x == Some(u32::MAX)) {
            self.fail(MON_MEM | MON_MODEL | MON_ITER, format!("{}:item-outside-initialised", name), format!("{} with calls \"{}\" handed out an item that is not a live element (uninitialised, moved-out or out-of-range slot): {:?}", name, pat, out));
            return;
        }
        if let Some((k, sh, l, rem)) = hint_bad {
            self.fail(MON_ITER | MON_MODEL, format!("{}:size_hint", name), format!("{}: before call {} size_hint() = {:?}, len() = {} but {} items remain", name, k, sh, l, rem));
            return;
        }
        // expected items
        let m = &self.model[v];
        let (mut lo, mut hi) = (0usize, len);
        let mut want: Vec<Option<u32>> = Vec::with_capacity(calls.len());
        let mut state_at_clone = (0usize, len);
        for (k, back) in calls.iter().enumerate() {
            if k == ca {
                state_at_clone = (lo, hi);
            }
            let sk = if kind != 7 { skips.get(k).copied().unwrap_or(0) as usize } else { 0 };
            let sk = sk.min(hi - lo);
            if *back {
                hi -= sk;
            } else {
                lo += sk;
            }
            if lo == hi {
                want.push(None);
            } else if *back {
                hi -= 1;
                want.push(Some(m[hi]));
            } else {
                want.push(Some(m[lo]));
                lo += 1;
            }
        }
        if ca == calls.len() {
            state_at_clone = (lo, hi);
        }
        if out != want {
            self.fail(MON_MODEL | MON_ITER, format!("{}:items", name), format!("{} with calls \"{}\" yielded {:?}, the model gives {:?}", name, pat, out, want));
            return;
        }
        if kind == 7 {
            let (l2, h2) = state_at_clone;
            let mut want2: Vec<Option<u32>> = m[l2..h2].iter().map(|x| Some(*x)).collect();
            want2.push(None);
            if out2 != want2 {
                self.fail(MON_ITER, "iter.clone:independence", format!("after cloning an IterRef and advancing the clone, the original yielded {:?}, expected {:?}", out2, want2));
                return;
            }
        }
        if let Some((cnt, last)) = fin_obs {
            let rem = hi - lo;
            let ok = match finish % 4 {
                1 | 3 => cnt == rem,
                2 => last == if rem == 0 { None } else { Some(m[hi - 1]) },
                _ => true,
            };
            if !ok {
                self.fail(MON_ITER | MON_MODEL, format!("{}:adaptor", name), format!("{} after calls \"{}\": {} of the remaining {} items gave {:?}", name, pat, ["drop", "count()", "last()", "rev().count()"][finish as usize % 4], rem, fin_obs));
                return;
            }
        }
        if skips.iter().any(|s| *s > 0) {
            self.nontrivial = true;
            self.class("nth");
        }
        let mixed = calls.iter().any(|b| *b) && calls.iter().any(|b| !*b);
        if mixed || calls.len() > len {
            self.nontrivial = true;
        }
        if calls.len() > len {
            self.class("past-exhaustion");
        }
    }
}

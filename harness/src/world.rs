//! The interpreter: applies choice-driven operations to real vectors and to the `Vec` model,
//! then compares the full post-state (DESIGN.md §2.5).

use std::any::TypeId;
use std::marker::PhantomData;
use std::mem::ManuallyDrop;
use std::panic::{catch_unwind, AssertUnwindSafe};
use std::ptr::NonNull;

use any_vec::any_value::{AnyValue, AnyValueCloneable, AnyValueMut, AnyValueRaw, AnyValueSizelessRaw, AnyValueTypelessRaw, AnyValueWrapper};
use any_vec::mem::MemBuilder;
use any_vec::{AnyVec, SatisfyTraits};

use crate::alloc;
use crate::backend::{self, Backend, Flavour};
use crate::choices::Ch;
use crate::elem::{self, reg, Elem, InjectedFault, Slot};
use crate::tset::{LazyVisitor, TSet};

pub trait Cfg: 'static {
    type T: Elem + SatisfyTraits<Self::Tr>;
    type M: Backend;
    type Tr: ?Sized + TSet;
    const NAME: &'static str;
}

pub type V<C> = AnyVec<<C as Cfg>::Tr, <C as Cfg>::M>;

// ---------------------------------------------------------------------------------------
// monitors

pub const MON_MODEL: u32 = 1; // sequence, length, returned values, expected panics
pub const MON_OWN: u32 = 2; // liveness, uniqueness, destroyed exactly once, leaks
pub const MON_MEM: u32 = 4; // guard zones, quarantine, backend lifecycle
pub const MON_ALLOC: u32 = 8; // allocator layouts / accounting / leaks
pub const MON_NOALLOC: u32 = 16; // no heap events for non-heap vectors
pub const MON_CAP: u32 = 32; // capacity promises
pub const MON_CLONE: u32 = 64; // clone counts
pub const MON_VALID: u32 = 128; // validity predicate only (after faults / forget)
pub const MON_ITER: u32 = 256; // iterator protocol (size_hint/len/fused)
pub const MON_VIEW: u32 = 512; // handles/views address the right bytes

pub fn mon_name(m: u32) -> &'static str {
    match m {
        MON_MODEL => "model",
        MON_OWN => "ownership",
        MON_MEM => "memory",
        MON_ALLOC => "allocator",
        MON_NOALLOC => "no-heap",
        MON_CAP => "capacity",
        MON_CLONE => "clone-count",
        MON_VALID => "validity",
        MON_ITER => "iterator-protocol",
        MON_VIEW => "view",
        _ => "?",
    }
}

#[derive(Clone, Debug)]
pub struct Violation {
    pub monitor: u32,
    /// stable short signature: entry point / detector
    pub sig: String,
    pub msg: String,
}

pub fn trace_live() -> bool {
    static LIVE: std::sync::OnceLock<bool> = std::sync::OnceLock::new();
    *LIVE.get_or_init(|| std::env::var_os("VERIF_TRACE").is_some())
}

pub enum Panicked {
    Injected,
    Msg(String),
}

/// Run library code: allocator window open, user-code callbacks counted, panics caught.
pub fn call<R>(f: impl FnOnce() -> R) -> Result<R, Panicked> {
    reg(|r| r.in_lib = true);
    let w = alloc::window();
    let r = catch_unwind(AssertUnwindSafe(f));
    drop(w);
    reg(|r| r.in_lib = false);
    match r {
        Ok(v) => Ok(v),
        Err(p) => {
            let out = if p.downcast_ref::<InjectedFault>().is_some() {
                Panicked::Injected
            } else if let Some(s) = p.downcast_ref::<&'static str>() {
                Panicked::Msg((*s).to_string())
            } else if let Some(s) = p.downcast_ref::<String>() {
                Panicked::Msg(s.clone())
            } else {
                Panicked::Msg("<non-string panic>".into())
            };
            drop(p);
            Err(out)
        }
    }
}

// ---------------------------------------------------------------------------------------
// operation vocabulary (bit positions in Spec::ops)

pub const OP_PUSH: u32 = 0;
pub const OP_INSERT: u32 = 1;
pub const OP_POP: u32 = 2;
pub const OP_REMOVE: u32 = 3;
pub const OP_SWAP_REMOVE: u32 = 4;
pub const OP_CLEAR: u32 = 5;
pub const OP_GET: u32 = 6;
pub const OP_ITER: u32 = 7;
pub const OP_DRAIN: u32 = 8;
pub const OP_SPLICE: u32 = 9;
pub const OP_CLONE: u32 = 10;
pub const OP_CLONE_EMPTY: u32 = 11;
pub const OP_RESERVE: u32 = 12;
pub const OP_RESERVE_EXACT: u32 = 13;
pub const OP_SHRINK_FIT: u32 = 14;
pub const OP_SHRINK_TO: u32 = 15;
pub const OP_RAW_PARTS: u32 = 16;
pub const OP_WRITE_SPARE: u32 = 17;
pub const OP_MUTATE: u32 = 18;
pub const OP_SWAP: u32 = 19;
pub const OP_BULK_PUSH: u32 = 20;
pub const OP_DROP_NEW: u32 = 21;
pub const OP_LAZY: u32 = 22;
pub const OP_VIEWS: u32 = 23;
/// the vector *value* is moved (Rust move = bitwise copy to another address); nothing may change
pub const OP_MOVE: u32 = 24;
pub const OP_COUNT: u32 = 25;

pub const OP_NAMES: [&str; OP_COUNT as usize] = [
    "push", "insert", "pop", "remove", "swap_remove", "clear", "get", "iter", "drain", "splice", "clone", "clone_empty_in", "reserve",
    "reserve_exact", "shrink_to_fit", "shrink_to", "raw_parts", "write_spare", "mutate", "swap", "bulk_push", "drop_new", "lazy", "views",
    "move",
];

pub const fn ops(list: &[u32]) -> u64 {
    let mut m = 0u64;
    let mut i = 0;
    while i < list.len() {
        m |= 1 << list[i];
        i += 1;
    }
    m
}

pub const OPS_C01: u64 = ops(&[OP_PUSH, OP_INSERT, OP_POP, OP_REMOVE, OP_SWAP_REMOVE, OP_CLEAR, OP_GET, OP_ITER]);
pub const OPS_C02: u64 = ops(&[OP_DRAIN, OP_SPLICE]);
pub const OPS_CAP: u64 = ops(&[OP_RESERVE, OP_RESERVE_EXACT, OP_SHRINK_FIT, OP_SHRINK_TO]);

/// value-source kinds for push / insert / splice items
#[derive(Clone, Copy, Debug, PartialEq, Eq)]
pub enum Src {
    Wrapper,
    Raw,
    TypelessRaw,
    SizelessRaw,
    Typed,
    UncheckedWrapper,
    HandlePop,
    HandleRemove,
    HandleSwapRemove,
    Drained,
    LazyRef,
    LazyMut,
    LazyDrained,
    LazyHandle,
}
pub const SRC_BASIC: &[Src] = &[Src::Wrapper, Src::Raw, Src::TypelessRaw, Src::SizelessRaw, Src::Typed, Src::UncheckedWrapper];
pub const SRC_HANDLES: &[Src] = &[Src::HandlePop, Src::HandleRemove, Src::HandleSwapRemove, Src::Drained];
pub const SRC_LAZY: &[Src] = &[Src::LazyRef, Src::LazyMut, Src::LazyDrained, Src::LazyHandle];

/// what happens to a removed value
#[derive(Clone, Copy, Debug, PartialEq, Eq)]
pub enum Sink {
    Drop,
    Downcast,
    /// `downcast_unchecked` (the type is the right one)
    DowncastUnchecked,
    DowncastRefThenDrop,
    MovePush,
    MoveInsert,
    MutateThenDowncast,
    LazyCloneThenDrop,
    Typed,
    Forget,
}
pub const SINKS_C01: &[Sink] =
    &[Sink::Drop, Sink::Downcast, Sink::DowncastUnchecked, Sink::DowncastRefThenDrop, Sink::MovePush, Sink::MoveInsert, Sink::MutateThenDowncast, Sink::LazyCloneThenDrop, Sink::Typed];

#[derive(Clone)]
pub struct Spec {
    pub prop: &'static str,
    pub ops: u64,
    pub mon: u32,
    /// length bound of exhaustive states
    pub max_len: usize,
    pub sinks: &'static [Sink],
    pub allow_forget: bool,
    /// C06: enumerate injected faults (exhaustive shapes) / arm random faults (histories)
    pub fault_enum: bool,
    /// C06: replacement iterators may misreport their length
    pub allow_lies: bool,
    /// iterator calls made past exhaustion (fused check)
    pub extra_calls: usize,
    /// known-defect triggers to steer around (counted), see known_findings.json / DESIGN §5
    pub avoid: u32,
}

pub const AVOID_NONE: u32 = 0;

// ---------------------------------------------------------------------------------------
// the world

pub struct World<C: Cfg> {
    pub vecs: [Option<V<C>>; 3],
    pub model: [Vec<u32>; 3],
    pub flav: [Flavour; 3],
    pub next_payload: u32,
    pub next_tag: u32,
    pub spec: Spec,
    pub viol: Option<Violation>,
    /// a monitor outside `spec.mon` tripped: stop the case quietly
    pub desync: Option<Violation>,
    pub nontrivial: bool,
    pub expect_clones: u64,
    pub permitted_leaks: usize,
    pub zst_leaks: i64,
    pub avoided: u32,
    pub step_no: u32,
    pub classes: Vec<&'static str>,
    /// fault-injection mode: an injected panic may fire inside the next operation
    pub fault_mode: bool,
    pub faults_fired: u32,
    /// the operation panics by itself (expected or not): no second panic is injected into it
    pub op_panicked: bool,
    /// slots in use (2 for one-step shapes, 3 for histories)
    pub n_slots: usize,
    /// a handle / iterator / item was leaked with mem::forget in the last operation
    pub forgot: bool,
    /// length of each slot when its spare capacity was last poisoned
    pub prev_len: [usize; 3],
    _p: PhantomData<C>,
}

fn live_probe<T: Elem>(b: &[u8]) -> bool {
    T::TRACKED && !T::ZST && T::see(b).slot == Slot::Live
}

impl<C: Cfg> World<C> {
    pub fn new(spec: Spec) -> Box<Self> {
        elem::reset_registry();
        alloc::reset();
        backend::reset_memlog();
        backend::set_live_probe(C::T::SIZE, live_probe::<C::T>);
        Box::new(World {
            vecs: [None, None, None],
            model: [Vec::new(), Vec::new(), Vec::new()],
            flav: [Flavour::Empty; 3],
            next_payload: 1,
            next_tag: 1,
            spec,
            viol: None,
            desync: None,
            nontrivial: false,
            expect_clones: 0,
            permitted_leaks: 0,
            zst_leaks: 0,
            avoided: 0,
            step_no: 0,
            classes: Vec::new(),
            fault_mode: false,
            faults_fired: 0,
            op_panicked: false,
            n_slots: 2,
            forgot: false,
            prev_len: [0; 3],
            _p: PhantomData,
        })
    }

    /// No further judgement possible: a violation was recorded, or (fault mode) the injected
    /// fault fired and the model is out of date until `after_fault` resynchronises it.
    pub fn dead(&self) -> bool {
        self.viol.is_some() || self.desync.is_some() || (self.fault_mode && reg(|r| r.fault_fired))
    }

    pub fn fail(&mut self, monitor: u32, sig: impl Into<String>, msg: impl Into<String>) {
        if self.dead() {
            return;
        }
        let v = Violation { monitor, sig: sig.into(), msg: msg.into() };
        if self.spec.mon & monitor != 0 {
            self.viol = Some(v);
        } else {
            self.desync = Some(v);
        }
    }

    /// The operation about to run panics by itself (refused index, capacity exceeded, invalid
    /// range): injecting a second panic into it would abort the process by language rule, so an
    /// armed fault is taken back (counted as avoided by construction).
    pub fn self_panicking_op(&mut self) {
        if self.fault_mode {
            let armed = reg(|r| {
                let a = r.fault_at.is_some() && r.fault_at != Some(u32::MAX);
                if a {
                    r.fault_at = None;
                }
                a
            });
            if armed {
                self.avoided += 1;
            }
        }
    }

    pub fn fresh(&mut self) -> u32 {
        let p = self.next_payload;
        self.next_payload += 1;
        p
    }
    pub fn class(&mut self, c: &'static str) {
        if !self.classes.contains(&c) {
            self.classes.push(c);
        }
    }

    // -----------------------------------------------------------------------------------
    // construction

    /// Create slot `s`: an empty vector of flavour `fl`, then `len` typed pushes; resizable
    /// flavours get capacity exactly `len + extra` (through `with_capacity`) when `extra` is Some.
    pub fn setup_slot(&mut self, s: usize, fl: Flavour, len: usize, extra: Option<usize>) {
        let tag = self.next_tag;
        self.next_tag += 1;
        let b = C::M::builder(fl, tag);
        let resizable = fl.fixed_cap().is_none();
        let r = call(|| {
            let mut v: V<C> = match extra {
                Some(e) if C::M::SIZEABLE && resizable => C::M::with_capacity::<C::Tr, C::T>(b, len + e),
                _ => AnyVec::new_in::<C::T>(b),
            };
            v
        });
        let mut v = match r {
            Ok(v) => v,
            Err(_) => {
                self.fail(MON_MODEL, "construct", format!("constructing an empty {} vector panicked", fl.name()));
                return;
            }
        };
        self.flav[s] = fl;
        self.model[s].clear();
        // a fixed-capacity backend must report its stated capacity before anything is stored
        if let Some(fc) = fl.fixed_cap() {
            if v.capacity() != fc {
                let got = v.capacity();
                self.vecs[s] = Some(v);
                self.fail(MON_CAP | MON_MODEL, "construct:fixed-cap", format!("a fresh {} vector of {} reports capacity {} instead of {}", fl.name(), C::T::NAME, got, fc));
                return;
            }
        }
        let cap = fl.fixed_cap().unwrap_or(usize::MAX);
        let n = len.min(cap);
        for _ in 0..n {
            let p = self.fresh();
            let val = C::T::make(p);
            let r = call(|| v.downcast_mut::<C::T>().unwrap().push(val));
            if r.is_err() {
                self.fail(MON_MODEL, "setup-push", "typed push during state setup panicked");
                break;
            }
            self.model[s].push(C::T::norm(p));
        }
        self.vecs[s] = Some(v);
    }

    // -----------------------------------------------------------------------------------
    // state inspection

    fn storage_base(v: &V<C>) -> usize {
        v.as_bytes().as_ptr() as usize
    }

    /// Decode the visible elements of slot `s` from the byte view.
    pub fn snapshot(&self, s: usize) -> Vec<elem::Seen> {
        let v = self.vecs[s].as_ref().unwrap();
        let bytes = v.as_bytes();
        if C::T::ZST {
            return (0..v.len().min(1 << 20)).map(|_| C::T::see(&[])).collect();
        }
        bytes.chunks_exact(C::T::SIZE).map(C::T::see).collect()
    }

    /// Full post-state comparison (DESIGN §2.5 step 3) and re-poisoning of spare capacity.
    pub fn check_state(&mut self, ctx: &str) {
        if self.dead() {
            return;
        }
        let size = C::T::SIZE;
        let mut total_len = 0usize;
        let mut ids: Vec<u32> = Vec::new();
        let mut heap_blocks_expected = 0usize;
        // elements without identity (no drop glue / plain): ownership is accounted by value and by
        // count over all vectors together
        if !C::T::TRACKED || C::T::ZST {
            let mut have: Vec<u32> = Vec::new();
            let mut want: Vec<u32> = Vec::new();
            let mut readable = true;
            for s in 0..3 {
                if self.vecs[s].is_none() {
                    continue;
                }
                want.extend(self.model[s].iter().copied());
                let v = self.vecs[s].as_ref().unwrap();
                if v.len() > (1 << 24) || v.as_bytes().len() != v.len() * size {
                    readable = false;
                    break;
                }
                for seen in self.snapshot(s) {
                    match seen.payload {
                        Some(p) => have.push(p),
                        None => readable = false,
                    }
                }
            }
            if readable {
                have.sort_unstable();
                want.sort_unstable();
                if have != want {
                    let msg = if have.len() != want.len() {
                        format!("after {}: {} elements are held by the vectors but {} must exist (values lost or duplicated)", ctx, have.len(), want.len())
                    } else {
                        format!("after {}: the multiset of element values {:?} differs from the expected {:?}", ctx, have, want)
                    };
                    self.fail(MON_OWN, format!("{}:value-accounting", ctx), msg);
                    if self.viol.is_some() {
                        return;
                    }
                    // not an enabled monitor here: let the ordinary checks classify it
                    self.desync = None;
                }
            }
        }
        for s in 0..3 {
            let Some(v) = self.vecs[s].as_ref() else { continue };
            let len = v.len();
            let cap = v.capacity();
            let mlen = self.model[s].len();
            if len != mlen {
                self.fail(MON_MODEL | MON_VALID, format!("{}:len", ctx), format!("after {}: slot {} len() = {} but Vec model has {}", ctx, s, len, mlen));
                return;
            }
            if v.is_empty() != (mlen == 0) {
                self.fail(MON_MODEL, format!("{}:is_empty", ctx), format!("after {}: is_empty() = {} with len {}", ctx, v.is_empty(), len));
                return;
            }
            if len > cap {
                self.fail(MON_CAP | MON_MODEL | MON_VALID, format!("{}:len>cap", ctx), format!("after {}: slot {} len {} > capacity {}", ctx, s, len, cap));
                return;
            }
            if let Some(fc) = self.flav[s].fixed_cap() {
                if cap != fc {
                    self.fail(MON_CAP | MON_MODEL, format!("{}:fixed-cap", ctx), format!("after {}: slot {} ({}) capacity() = {} expected {}", ctx, s, self.flav[s].name(), cap, fc));
                    return;
                }
            }
            let bytes_len = v.as_bytes().len();
            if bytes_len != len * size {
                self.fail(MON_MODEL | MON_VIEW, format!("{}:as_bytes-len", ctx), format!("after {}: as_bytes().len() = {} expected {}", ctx, bytes_len, len * size));
                return;
            }
            total_len += len;
            let snap = self.snapshot(s);
            for (i, seen) in snap.iter().enumerate() {
                match seen.payload {
                    None => {
                        let why = seen.why_bad();
                        self.fail(
                            MON_MODEL | MON_OWN | MON_VALID | MON_MEM | MON_VIEW,
                            format!("{}:visible-{:?}", ctx, seen.slot),
                            format!("after {}: slot {} element {} is {} (id {}); model expects payload {}", ctx, s, i, why, seen.id, self.model[s][i]),
                        );
                        return;
                    }
                    Some(p) => {
                        if p != self.model[s][i] {
                            let got: Vec<String> = snap.iter().map(|x| x.payload.map(|p| p.to_string()).unwrap_or("?".into())).collect();
                            self.fail(
                                MON_MODEL | MON_VIEW,
                                format!("{}:sequence", ctx),
                                format!("after {}: slot {} = [{}] but Vec model = {:?} (first difference at {})", ctx, s, got.join(","), self.model[s], i),
                            );
                            return;
                        }
                    }
                }
                if C::T::TRACKED && !C::T::ZST {
                    ids.push(seen.id);
                }
            }
            // allocator accounting for heap-flavoured vectors
            if self.flav[s].uses_global_alloc() {
                let base = Self::storage_base(v);
                let need = cap.saturating_mul(size);
                let blk = alloc::block_of(base);
                if need > 0 {
                    heap_blocks_expected += 1;
                    match blk {
                        None => {
                            self.fail(MON_ALLOC, format!("{}:no-block", ctx), format!("after {}: heap vector slot {} (cap {} x {} B) does not point at a live allocation", ctx, s, cap, size));
                            return;
                        }
                        Some((_, bsize, balign, _)) => {
                            if bsize < need || balign < C::T::ALIGN {
                                self.fail(
                                    MON_ALLOC,
                                    format!("{}:small-block", ctx),
                                    format!("after {}: heap vector slot {} needs {} B align {} but its allocation is {} B align {}", ctx, s, need, C::T::ALIGN, bsize, balign),
                                );
                                return;
                            }
                        }
                    }
                } else if blk.is_some() {
                    self.fail(MON_ALLOC, format!("{}:block-for-zero", ctx), format!("after {}: heap vector slot {} with capacity x size == 0 owns an allocation", ctx, s));
                    return;
                }
            }
        }
        // uniqueness
        if C::T::TRACKED && !C::T::ZST {
            ids.sort_unstable();
            for w in ids.windows(2) {
                if w[0] == w[1] {
                    self.fail(MON_OWN | MON_VALID | MON_MODEL, format!("{}:duplicate", ctx), format!("after {}: element id {} is visible in two places", ctx, w[0]));
                    return;
                }
            }
            let live = reg(|r| r.live);
            if live != total_len + self.permitted_leaks {
                let msg = if live > total_len + self.permitted_leaks {
                    format!("after {}: {} elements alive but only {} reachable (+{} permitted leaks): leaked", ctx, live, total_len, self.permitted_leaks)
                } else {
                    format!("after {}: {} elements alive but {} reachable: destroyed while reachable", ctx, live, total_len)
                };
                self.fail(MON_OWN, format!("{}:live-count", ctx), msg);
                return;
            }
        }
        if C::T::TRACKED && C::T::ZST {
            let live = reg(|r| r.zst_live);
            if live != total_len as i64 + self.zst_leaks {
                self.fail(MON_OWN, format!("{}:zst-count", ctx), format!("after {}: {} zero-sized elements alive but {} in vectors", ctx, live, total_len));
                return;
            }
        }
        if let Some(f) = elem::registry_flags() {
            self.fail(MON_OWN | MON_VALID, format!("{}:registry", ctx), format!("after {}: {}", ctx, f));
            return;
        }
        if C::T::COUNTS_CLONES {
            let cc = reg(|r| r.clone_calls);
            if cc != self.expect_clones {
                self.fail(MON_CLONE, format!("{}:clone-calls", ctx), format!("after {}: element Clone ran {} times in total, expected {}", ctx, cc, self.expect_clones));
                return;
            }
        }
        // memory monitors
        alloc::verify_all();
        if let Some((f, msg)) = alloc::flags() {
            let mem = f & (alloc::F_OOB_WRITE | alloc::F_UAF_WRITE);
            let al = f & (alloc::F_BAD_LAYOUT | alloc::F_LAYOUT_MISMATCH | alloc::F_BAD_FREE);
            if f & alloc::F_TABLE_FULL != 0 {
                self.desync = Some(Violation { monitor: 0, sig: "harness".into(), msg: "allocator table full".into() });
                return;
            }
            if mem != 0 {
                self.fail(MON_MEM | MON_VALID, format!("{}:heap-{}", ctx, alloc::flag_names(mem)), format!("after {}: {}", ctx, msg));
                return;
            }
            if al != 0 {
                self.fail(MON_ALLOC, format!("{}:alloc-{}", ctx, alloc::flag_names(al)), format!("after {}: {}", ctx, msg));
                return;
            }
        }
        if alloc::live_count() != heap_blocks_expected {
            self.fail(
                MON_ALLOC,
                format!("{}:block-count", ctx),
                format!("after {}: {} live heap allocations made by the library but {} heap vectors with non-zero storage", ctx, alloc::live_count(), heap_blocks_expected),
            );
            return;
        }
        backend::verify_guard_blocks();
        if let Some(f) = backend::memlog_flags() {
            self.fail(MON_MEM | MON_VALID, format!("{}:backend", ctx), format!("after {}: {}", ctx, f));
            return;
        }
        // no operation on inline-backed vectors may touch the heap
        if (0..3).all(|s| self.vecs[s].is_none() || self.flav[s].is_inline()) {
            let ev = alloc::events();
            if ev.total() != 0 || alloc::live_count() != 0 {
                self.fail(MON_NOALLOC, format!("{}:heap-events", ctx), format!("after {}: only inline-backed (stack) vectors exist but the heap allocator saw {:?}, {} live block(s)", ctx, ev, alloc::live_count()));
                return;
            }
        }
        self.repoison();
    }

    /// Fill `[len, capacity)` of every vector with poison, through the typed storage pointer.
    pub fn repoison(&mut self) {
        let size = C::T::SIZE;
        if size == 0 {
            return;
        }
        for s in 0..3 {
            let Some(v) = self.vecs[s].as_mut() else { continue };
            let (len, cap) = (v.len(), v.capacity());
            if cap <= len {
                self.prev_len[s] = len;
                continue;
            }
            // Heap / guard blocks are handed out poison-filled, so only the window the last
            // operation can have dirtied needs re-poisoning: from len up to the previous length
            // (+ slack). Inline storage starts uninitialised: poison all of it.
            let window = if self.flav[s].is_inline() { cap - len } else { (self.prev_len[s].max(len) + 64).min(cap) - len };
            let n = window.saturating_mul(size).min(alloc::VIRT_LIMIT);
            let base = v.downcast_mut::<C::T>().unwrap().as_mut_ptr() as *mut u8;
            // storage served virtually (huge request): only the first VIRT_SIZE bytes exist
            if (len * size).saturating_add(n) > alloc::VIRT_SIZE && cap.saturating_mul(size) > alloc::VIRT_LIMIT {
                continue;
            }
            unsafe { std::ptr::write_bytes(base.add(len * size), elem::POISON, n) };
            self.prev_len[s] = len;
        }
    }

    /// Drop every vector and run the end-of-case checks.
    pub fn finish(&mut self) {
        for s in 0..3 {
            if let Some(v) = self.vecs[s].take() {
                let r = call(move || drop(v));
                self.model[s].clear();
                if r.is_err() && !self.dead() {
                    self.fail(MON_MODEL | MON_VALID, "drop-vec", "dropping a vector panicked");
                }
            }
        }
        if self.dead() {
            return;
        }
        if C::T::TRACKED && !C::T::ZST {
            let live = reg(|r| r.live);
            if live != self.permitted_leaks {
                self.fail(MON_OWN, "end:leak", format!("at the end {} elements are still alive ({} permitted): leaked", live, self.permitted_leaks));
                return;
            }
            let bad = reg(|r| r.entries.iter().enumerate().skip(1).find(|(_, e)| e.dropped > 1).map(|(i, _)| i));
            if let Some(id) = bad {
                self.fail(MON_OWN | MON_VALID, "end:dropped-twice", format!("element id {} was destroyed more than once", id));
                return;
            }
        }
        if C::T::TRACKED && C::T::ZST {
            let live = reg(|r| r.zst_live);
            if live != self.zst_leaks {
                self.fail(MON_OWN, "end:zst-leak", format!("at the end {} zero-sized elements are still alive", live));
                return;
            }
        }
        if let Some(f) = elem::registry_flags() {
            self.fail(MON_OWN | MON_VALID, "end:registry", f);
            return;
        }
        alloc::verify_all();
        if let Some((f, msg)) = alloc::flags() {
            let mem = f & (alloc::F_OOB_WRITE | alloc::F_UAF_WRITE);
            let al = f & (alloc::F_BAD_LAYOUT | alloc::F_LAYOUT_MISMATCH | alloc::F_BAD_FREE);
            if mem != 0 {
                self.fail(MON_MEM | MON_VALID, format!("end:heap-{}", alloc::flag_names(mem)), msg);
                return;
            }
            if al != 0 {
                self.fail(MON_ALLOC, format!("end:alloc-{}", alloc::flag_names(al)), msg);
                return;
            }
        }
        if alloc::live_count() != 0 {
            let b = alloc::live_blocks();
            self.fail(MON_ALLOC, "end:heap-leak", format!("{} heap allocation(s) made by the library never freed, e.g. {} B align {}", b.len(), b[0].1, b[0].2));
            return;
        }
        backend::verify_guard_blocks();
        if let Some(f) = backend::memlog_flags() {
            self.fail(MON_MEM | MON_VALID, "end:backend", f);
            return;
        }
        let lifecycle = backend::memlog(|m| {
            if m.builds != m.drops {
                return Some(format!("backend storage built {} times but released {} times", m.builds, m.drops));
            }
            let mut t = m.dropped_tags.clone();
            t.sort_unstable();
            for w in t.windows(2) {
                if w[0] == w[1] {
                    return Some(format!("storage of vector tag {} released twice", w[0]));
                }
            }
            if !m.live.is_empty() {
                return Some(format!("{} backend blocks never released", m.live.len()));
            }
            for (tag, sz, al) in m.build_layouts.iter() {
                if *sz != C::T::SIZE || *al != C::T::ALIGN {
                    return Some(format!("storage for vector tag {} requested with layout size {} align {} instead of the element layout {}/{}", tag, sz, al, C::T::SIZE, C::T::ALIGN));
                }
            }
            None
        });
        if let Some(msg) = lifecycle {
            self.fail(MON_MEM, "end:lifecycle", msg);
        }
    }

    /// Two distinct slots, mutably.
    pub fn two(&mut self, a: usize, b: usize) -> (&mut V<C>, &mut V<C>) {
        assert!(a != b);
        let p = self.vecs.as_mut_ptr();
        unsafe { ((*p.add(a)).as_mut().unwrap(), (*p.add(b)).as_mut().unwrap()) }
    }

    pub fn expect_panic<R>(&mut self, ctx: &str, r: &Result<R, Panicked>, must_panic: bool, why: &str) {
        self.expect_panic_m(MON_MODEL, ctx, r, must_panic, why)
    }

    /// `mon`: monitors (besides validity) that own this expectation
    pub fn expect_panic_m<R>(&mut self, mon: u32, ctx: &str, r: &Result<R, Panicked>, must_panic: bool, why: &str) {
        if must_panic || r.is_err() {
            self.op_panicked = true;
        }
        match (r, must_panic) {
            (Ok(_), true) => self.fail(mon, format!("{}:no-panic", ctx), format!("{}: returned normally although it must panic ({})", ctx, why)),
            (Err(Panicked::Msg(m)), false) => self.fail(mon | MON_VALID, format!("{}:panic", ctx), format!("{}: panicked unexpectedly: {}", ctx, m)),
            (Err(Panicked::Injected), false) => self.fail(mon, format!("{}:panic", ctx), format!("{}: injected fault without fault mode", ctx)),
            _ => {}
        }
    }
}

// ---------------------------------------------------------------------------------------
// value sources

/// A destination for one value: push (None) or insert(i), checked or unchecked entry point.
pub struct Dst<'a, C: Cfg> {
    pub vec: &'a mut V<C>,
    pub at: Option<usize>,
    pub unchecked: bool,
}
impl<'a, C: Cfg> Dst<'a, C> {
    pub fn put<Val: AnyValue>(self, val: Val) {
        match (self.at, self.unchecked) {
            (None, false) => self.vec.push(val),
            (Some(i), false) => self.vec.insert(i, val),
            (None, true) => unsafe { self.vec.push_unchecked(val) },
            (Some(i), true) => unsafe { self.vec.insert_unchecked(i, val) },
        }
    }
}

/// Lazy-clone chain of `depth` (1..=3) over a cloneable handle, delivered to `dst`.
pub struct LazyInto<'a, C: Cfg> {
    pub dst: Dst<'a, C>,
    pub depth: u32,
}
impl<'a, C: Cfg> LazyVisitor for LazyInto<'a, C> {
    type Out = ();
    fn visit<Val: AnyValueCloneable + AnyValue>(self, v: &Val) {
        match self.depth {
            1 => self.dst.put(v.lazy_clone()),
            2 => {
                let l1 = v.lazy_clone();
                self.dst.put(l1.lazy_clone())
            }
            _ => {
                let l1 = v.lazy_clone();
                let l2 = l1.lazy_clone();
                self.dst.put(l2.lazy_clone())
            }
        }
    }
}

pub fn typeid_of<T: 'static>() -> TypeId {
    TypeId::of::<T>()
}

impl<C: Cfg> World<C> {
    /// push/insert into slot `v` at `at` (None = push) from source `src`.
    /// `w`,`j`,`depth` parameterise sources that take from another slot.
    #[allow(clippy::too_many_arguments)]
    pub fn do_insert(&mut self, v: usize, at: Option<usize>, src: Src, w: usize, j: usize, depth: u32, back: bool, tr: &mut String) {
        use std::fmt::Write;
        let opname = if at.is_some() { "insert" } else { "push" };
        let len = self.model[v].len();
        let fixed = self.flav[v].fixed_cap();
        let idx_bad = matches!(at, Some(i) if i > len);
        let cap_bad = matches!(fixed, Some(c) if len >= c);
        let must_panic = idx_bad || cap_bad;
        let why = if idx_bad { "index out of range" } else { "capacity of fixed backend exceeded" };
        let pos = at.unwrap_or(len);
        if must_panic {
            self.self_panicking_op();
        }
        let _ = write!(tr, "{}(v{}{}, src={:?}", opname, v, at.map(|i| format!(", at {}", i)).unwrap_or_default(), src);
        let size = C::T::SIZE;
        match src {
            Src::Wrapper | Src::UncheckedWrapper | Src::Typed | Src::Raw | Src::TypelessRaw | Src::SizelessRaw => {
                let p = self.fresh();
                let _ = write!(tr, " payload {})", p);
                let val = C::T::make(p);
                let vec = self.vecs[v].as_mut().unwrap();
                let mut keep: Option<ManuallyDrop<C::T>> = None;
                let r = match src {
                    Src::Wrapper => call(|| Dst::<C> { vec, at, unchecked: false }.put(AnyValueWrapper::new(val))),
                    Src::UncheckedWrapper => call(|| Dst::<C> { vec, at, unchecked: true }.put(AnyValueWrapper::new(val))),
                    Src::Typed => call(|| {
                        let mut t = vec.downcast_mut::<C::T>().unwrap();
                        match at {
                            None => t.push(val),
                            Some(i) => t.insert(i, val),
                        }
                    }),
                    Src::Raw => {
                        keep = Some(ManuallyDrop::new(val));
                        let ptr = NonNull::from(&mut **keep.as_mut().unwrap()).cast::<u8>();
                        let raw = unsafe { AnyValueRaw::new(ptr, size, TypeId::of::<C::T>()) };
                        call(|| Dst::<C> { vec, at, unchecked: false }.put(raw))
                    }
                    Src::TypelessRaw => {
                        keep = Some(ManuallyDrop::new(val));
                        let ptr = NonNull::from(&mut **keep.as_mut().unwrap()).cast::<u8>();
                        let raw = unsafe { AnyValueTypelessRaw::new(ptr, size) };
                        call(|| unsafe {
                            match at {
                                None => vec.push_unchecked(raw),
                                Some(i) => vec.insert_unchecked(i, raw),
                            }
                        })
                    }
                    _ => {
                        keep = Some(ManuallyDrop::new(val));
                        let ptr = NonNull::from(&mut **keep.as_mut().unwrap()).cast::<u8>();
                        let raw = unsafe { AnyValueSizelessRaw::new(ptr) };
                        call(|| unsafe {
                            match at {
                                None => vec.push_unchecked(raw),
                                Some(i) => vec.insert_unchecked(i, raw),
                            }
                        })
                    }
                };
                // a raw (non-owning) source that was not consumed is still ours
                if let Some(mut k) = keep {
                    if r.is_err() {
                        unsafe { ManuallyDrop::drop(&mut k) };
                    }
                }
                self.expect_panic(opname, &r, must_panic, why);
                if r.is_ok() && !must_panic {
                    self.model[v].insert(pos, C::T::norm(p));
                }
            }
            Src::HandlePop | Src::HandleRemove | Src::HandleSwapRemove => {
                // take from slot w (index j), deliver to v
                let wlen = self.model[w].len();
                let take_bad = match src {
                    Src::HandlePop => wlen == 0,
                    _ => j >= wlen,
                };
                let _ = write!(tr, " from v{}[{}])", w, j);
                if take_bad && src != Src::HandlePop {
                    self.self_panicking_op();
                }
                let (vec, wv) = self.two(v, w);
                let r = call(|| match src {
                    Src::HandlePop => {
                        if let Some(h) = wv.pop() {
                            Dst::<C> { vec, at, unchecked: false }.put(h)
                        }
                    }
                    Src::HandleRemove => {
                        let h = wv.remove(j);
                        Dst::<C> { vec, at, unchecked: false }.put(h)
                    }
                    _ => {
                        let h = wv.swap_remove(j);
                        Dst::<C> { vec, at, unchecked: false }.put(h)
                    }
                });
                if take_bad {
                    // pop on empty: nothing happens; remove/swap_remove out of range: panic, nothing changes
                    let mp = src != Src::HandlePop;
                    self.expect_panic(opname, &r, mp, "source index out of range");
                } else {
                    self.expect_panic(opname, &r, must_panic, why);
                    let p = match src {
                        Src::HandlePop => self.model[w].pop().unwrap(),
                        Src::HandleRemove => self.model[w].remove(j),
                        _ => self.model[w].swap_remove(j),
                    };
                    // delivered, or (on a refused insert) destroyed with the handle
                    if !must_panic {
                        self.model[v].insert(pos, p);
                        self.nontrivial = true;
                        self.class("moved-between-vectors");
                    }
                }
            }
            Src::Drained => {
                // drain w[j..j+depth], move one item (front or back) into v, drop the rest
                let wlen = self.model[w].len();
                let a = j.min(wlen);
                let b = (j + depth as usize).min(wlen);
                let _ = write!(tr, " from v{}.drain({}..{}).{})", w, a, b, if back { "next_back" } else { "next" });
                let (vec, wv) = self.two(v, w);
                let r = call(|| {
                    let mut d = wv.drain(a..b);
                    let e = if back { d.next_back() } else { d.next() };
                    if let Some(e) = e {
                        Dst::<C> { vec, at, unchecked: false }.put(e);
                    }
                    drop(d);
                });
                let got = b > a;
                self.expect_panic(opname, &r, got && must_panic, why);
                let removed: Vec<u32> = self.model[w].drain(a..b).collect();
                if got && !must_panic {
                    let p = if back { *removed.last().unwrap() } else { removed[0] };
                    self.model[v].insert(pos, p);
                    self.nontrivial = true;
                    self.class("moved-between-vectors");
                }
            }
            Src::LazyRef | Src::LazyMut | Src::LazyDrained | Src::LazyHandle => {
                let wlen = self.model[w].len();
                let _ = write!(tr, " of v{}[{}] depth {})", w, j, depth);
                if !<C::Tr as TSet>::CLONEABLE || wlen == 0 {
                    let _ = write!(tr, " [skipped]");
                    return;
                }
                let j = j.min(wlen - 1);
                let (vec, wv) = self.two(v, w);
                let r = call(|| match src {
                    Src::LazyRef => {
                        let e = wv.at(j);
                        <C::Tr as TSet>::lazy_elem(&*e, LazyInto::<C> { dst: Dst { vec, at, unchecked: false }, depth });
                    }
                    Src::LazyMut => {
                        let e = wv.at_mut(j);
                        <C::Tr as TSet>::lazy_elem(&*e, LazyInto::<C> { dst: Dst { vec, at, unchecked: false }, depth });
                    }
                    Src::LazyDrained => {
                        let mut d = wv.drain(j..j + 1);
                        let e = d.next().unwrap();
                        <C::Tr as TSet>::lazy_elem(&e, LazyInto::<C> { dst: Dst { vec, at, unchecked: false }, depth });
                        drop(e);
                        drop(d);
                    }
                    _ => {
                        let h = wv.remove(j);
                        <C::Tr as TSet>::lazy_remove(&h, LazyInto::<C> { dst: Dst { vec, at, unchecked: false }, depth });
                        drop(h);
                    }
                });
                self.expect_panic(opname, &r, must_panic, why);
                let p = self.model[w][j];
                if matches!(src, Src::LazyDrained | Src::LazyHandle) {
                    self.model[w].remove(j);
                }
                if !must_panic {
                    self.model[v].insert(pos, p);
                    self.expect_clones += 1;
                    self.nontrivial = true;
                    self.class("lazy-clone");
                }
            }
        }
        if !must_panic && (pos == 0 || pos == len || pos + 1 == len) || must_panic {
            self.nontrivial = true;
        }
        if !must_panic {
            self.nontrivial = true;
        }
    }
}

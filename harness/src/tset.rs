//! The eight constraint sets as a trait, with conditional access to the `Cloneable`-only API.
//!
//! Generic interpreter code cannot name `Traits: Cloneable` bounds conditionally, so the
//! cloneable operations are reached through methods whose default body is `unreachable!()`
//! and which the four cloneable sets override (the interpreter consults `CLONEABLE` first).

use any_vec::any_value::{AnyValue, AnyValueCloneable};
use any_vec::element::{Element, ElementRef};
use any_vec::mem::MemBuilder;
use any_vec::ops::{Pop, Remove, SwapRemove};
use any_vec::traits::{Cloneable, None, Trait};
use any_vec::AnyVec;

/// Visitor over "some cloneable value handle" (its concrete type differs per source kind).
pub trait LazyVisitor {
    type Out;
    fn visit<V: AnyValueCloneable + AnyValue>(self, v: &V) -> Self::Out;
}

/// Visitor over "some exact-size iterator of values" (replacement iterators for splice).
pub trait IterVisitor {
    type Out;
    fn visit<I: ExactSizeIterator>(self, it: I) -> Self::Out
    where
        I::Item: AnyValue;
}

pub trait TSet: Trait + 'static {
    const NAME: &'static str;
    const CLONEABLE: bool;
    const SEND: bool;
    const SYNC: bool;

    fn clone_vec<M: MemBuilder>(_v: &AnyVec<Self, M>) -> AnyVec<Self, M> {
        unreachable!()
    }
    fn element_clone_addr<M: MemBuilder>(_v: &AnyVec<Self, M>) -> usize {
        unreachable!()
    }
    /// `Clone::clone_from`
    fn clone_from_vec<M: MemBuilder>(_dst: &mut AnyVec<Self, M>, _src: &AnyVec<Self, M>) {
        unreachable!()
    }
    /// empty vector of `Alt<T>` (same layout as `T`, different type)
    fn new_alt_in<T: crate::elem::Elem, M: MemBuilder>(_b: M) -> AnyVec<Self, M> {
        unreachable!()
    }
    fn lazy_elem<'a, M: MemBuilder, V: LazyVisitor>(_e: &Element<'a, Self, M>, _vis: V) -> V::Out {
        unreachable!()
    }
    fn lazy_pop<'a, M: MemBuilder, V: LazyVisitor>(_e: &Pop<'a, Self, M>, _vis: V) -> V::Out {
        unreachable!()
    }
    fn lazy_remove<'a, M: MemBuilder, V: LazyVisitor>(_e: &Remove<'a, Self, M>, _vis: V) -> V::Out {
        unreachable!()
    }
    fn lazy_swap_remove<'a, M: MemBuilder, V: LazyVisitor>(_e: &SwapRemove<'a, Self, M>, _vis: V) -> V::Out {
        unreachable!()
    }
    /// iterator of lazy clones of the referenced elements
    fn lazy_iter<'r, 'a: 'r, M: MemBuilder, V: IterVisitor>(_refs: &'r [ElementRef<'a, Self, M>], _vis: V) -> V::Out {
        unreachable!()
    }
}

macro_rules! plain_set {
    ($t:ty, $name:expr, $send:expr, $sync:expr) => {
        impl TSet for $t {
            const NAME: &'static str = $name;
            const CLONEABLE: bool = false;
            const SEND: bool = $send;
            const SYNC: bool = $sync;
        }
    };
}
macro_rules! cloneable_set {
    ($t:ty, $name:expr, $send:expr, $sync:expr) => {
        impl TSet for $t {
            const NAME: &'static str = $name;
            const CLONEABLE: bool = true;
            const SEND: bool = $send;
            const SYNC: bool = $sync;
            fn clone_vec<M: MemBuilder>(v: &AnyVec<Self, M>) -> AnyVec<Self, M> {
                v.clone()
            }
            fn element_clone_addr<M: MemBuilder>(v: &AnyVec<Self, M>) -> usize {
                v.element_clone() as usize
            }
            fn clone_from_vec<M: MemBuilder>(dst: &mut AnyVec<Self, M>, src: &AnyVec<Self, M>) {
                dst.clone_from(src)
            }
            fn new_alt_in<T: crate::elem::Elem, M: MemBuilder>(b: M) -> AnyVec<Self, M> {
                AnyVec::new_in::<crate::elem::Alt<T>>(b)
            }
            fn lazy_elem<'a, M: MemBuilder, V: LazyVisitor>(e: &Element<'a, Self, M>, vis: V) -> V::Out {
                vis.visit(e)
            }
            fn lazy_pop<'a, M: MemBuilder, V: LazyVisitor>(e: &Pop<'a, Self, M>, vis: V) -> V::Out {
                vis.visit(e)
            }
            fn lazy_remove<'a, M: MemBuilder, V: LazyVisitor>(e: &Remove<'a, Self, M>, vis: V) -> V::Out {
                vis.visit(e)
            }
            fn lazy_swap_remove<'a, M: MemBuilder, V: LazyVisitor>(e: &SwapRemove<'a, Self, M>, vis: V) -> V::Out {
                vis.visit(e)
            }
            fn lazy_iter<'r, 'a: 'r, M: MemBuilder, V: IterVisitor>(refs: &'r [ElementRef<'a, Self, M>], vis: V) -> V::Out {
                vis.visit(refs.iter().map(|e| (**e).lazy_clone()))
            }
        }
    };
}

plain_set!(dyn None, "None", false, false);
plain_set!(dyn Send, "Send", true, false);
plain_set!(dyn Sync, "Sync", false, true);
plain_set!(dyn Send + Sync, "Send+Sync", true, true);
cloneable_set!(dyn Cloneable, "Cloneable", false, false);
cloneable_set!(dyn Cloneable + Send, "Cloneable+Send", true, false);
cloneable_set!(dyn Cloneable + Sync, "Cloneable+Sync", false, true);
cloneable_set!(dyn Cloneable + Send + Sync, "Cloneable+Send+Sync", true, true);

//! C04: values of the wrong runtime type are never admitted or reinterpreted.
//!
//! `pair_case::<A, B>`: a vector of element type A is offered values of type B / asked for
//! type B through every checked entry point. A != B must be rejected (panic / None) leaving
//! the vector unchanged (push, insert, swap) or valid (splice); A == B must succeed.

use std::any::TypeId;
use std::fmt::Write;
use std::mem::ManuallyDrop;
use std::ptr::NonNull;

use any_vec::any_value::{AnyValue, AnyValueCloneable, AnyValueMut, AnyValueRaw, AnyValueSizeless, AnyValueTypeless, AnyValueTypelessMut, AnyValueWrapper};
use any_vec::traits::Cloneable;
use any_vec::AnyVec;

use crate::alloc;
use crate::cases::CaseOut;
use crate::choices::Ch;
use crate::elem::{self, reg, Tr8, TrB8};
use crate::world::{call, Violation, MON_MODEL};

/// Element types of the matrix: cheap to make, comparable by a key.
pub trait K4: 'static + Clone + Send + Sync {
    const NAME: &'static str;
    fn mk(i: u32) -> Self;
    fn key(&self) -> u64;
    /// tracked by the identity registry (destroyed-exactly-once accounting)
    const TRACKED: bool = false;
}
macro_rules! k4_int {
    ($t:ty) => {
        impl K4 for $t {
            const NAME: &'static str = stringify!($t);
            fn mk(i: u32) -> Self {
                (i as $t).wrapping_mul(3).wrapping_add(1)
            }
            fn key(&self) -> u64 {
                *self as u64
            }
        }
    };
}
k4_int!(u64);
k4_int!(i64);
k4_int!(usize);
k4_int!(u32);
impl K4 for f64 {
    const NAME: &'static str = "f64";
    fn mk(i: u32) -> Self {
        i as f64 * 1.5 + 0.25
    }
    fn key(&self) -> u64 {
        self.to_bits()
    }
}
impl K4 for [u8; 8] {
    const NAME: &'static str = "[u8;8]";
    fn mk(i: u32) -> Self {
        (i as u64 * 0x0101_0101 + 7).to_le_bytes()
    }
    fn key(&self) -> u64 {
        u64::from_le_bytes(*self)
    }
}
impl K4 for () {
    const NAME: &'static str = "()";
    fn mk(_: u32) -> Self {}
    fn key(&self) -> u64 {
        0
    }
}
#[derive(Clone, Copy)]
pub struct Z2;
impl K4 for Z2 {
    const NAME: &'static str = "Z2";
    fn mk(_: u32) -> Self {
        Z2
    }
    fn key(&self) -> u64 {
        0
    }
}
impl K4 for String {
    const NAME: &'static str = "String";
    fn mk(i: u32) -> Self {
        format!("s{}", i)
    }
    fn key(&self) -> u64 {
        self.bytes().fold(7u64, |a, b| a.wrapping_mul(31).wrapping_add(b as u64))
    }
}
impl K4 for Tr8 {
    const NAME: &'static str = "Tr8";
    const TRACKED: bool = true;
    fn mk(i: u32) -> Self {
        <Tr8 as elem::Elem>::make(i)
    }
    fn key(&self) -> u64 {
        elem::Elem::payload(self).map(|p| p as u64).unwrap_or(u64::MAX)
    }
}
impl K4 for TrB8 {
    const NAME: &'static str = "TrB8";
    const TRACKED: bool = true;
    fn mk(i: u32) -> Self {
        <TrB8 as elem::Elem>::make(i)
    }
    fn key(&self) -> u64 {
        elem::Elem::payload(self).map(|p| p as u64).unwrap_or(u64::MAX)
    }
}

type VA = AnyVec<dyn Cloneable>;

fn keys<A: K4>(v: &VA) -> Option<Vec<u64>> {
    v.downcast_ref::<A>().map(|t| t.as_slice().iter().map(|x| x.key()).collect())
}

pub const N_ENTRY: u32 = 22;
pub const ENTRY_NAMES: [&str; N_ENTRY as usize] = [
    "push(wrapper)",
    "push(raw)",
    "insert(i, wrapper)",
    "insert(i, raw)",
    "splice(raw items, j-th of k foreign)",
    "ElementMut.swap(wrapper)",
    "ElementMut.swap(raw)",
    "ElementMut.swap(ElementMut of other vec)",
    "remove-handle.swap(wrapper)",
    "wrapper.swap(ElementMut)",
    "drained-element.swap(raw)",
    "vec.downcast_ref/downcast_mut",
    "ElementRef.downcast_ref",
    "ElementMut.downcast_mut",
    "remove-handle.downcast_ref/downcast_mut/downcast",
    "pop-handle.downcast",
    "drained-element.downcast",
    "wrapper.downcast/downcast_ref",
    "raw.downcast_ref/downcast_mut",
    "lazy_clone(element).downcast",
    "push(handle of other vec)",
    "typeid/layout/size reports",
];

struct Ctx {
    problem: Option<(String, String)>,
}
impl Ctx {
    fn bad(&mut self, sig: &str, msg: String) {
        if self.problem.is_none() {
            self.problem = Some((sig.to_string(), msg));
        }
    }
}

pub fn pair_case<A: K4, B: K4>(ch: &mut Ch, tr: &mut String) -> CaseOut {
    elem::reset_registry();
    alloc::reset();
    let same = TypeId::of::<A>() == TypeId::of::<B>();
    let len = ch.pick(4) as usize;
    let entry = ch.pick(N_ENTRY);
    let idx = ch.pick(len as u32 + 1) as usize;
    let _ = write!(tr, "[pair {} <- {}] vec<{}> len {}; {} at {}", A::NAME, B::NAME, A::NAME, len, ENTRY_NAMES[entry as usize], idx);
    let mut cx = Ctx { problem: None };
    let mut va: VA = AnyVec::new::<A>();
    for i in 0..len {
        va.downcast_mut::<A>().unwrap().push(A::mk(i as u32 + 1));
    }
    // a second vector holding B values for handle sources
    let mut vb: VA = AnyVec::new::<B>();
    for i in 0..3 {
        vb.downcast_mut::<B>().unwrap().push(B::mk(100 + i));
    }
    let before = keys::<A>(&va).unwrap();
    let before_b = keys::<B>(&vb).unwrap();
    let live0 = reg(|r| r.live);
    let size_b = std::mem::size_of::<B>();
    let tid_b = TypeId::of::<B>();
    let mut nontrivial = !same && std::mem::size_of::<A>() == size_b && std::mem::align_of::<A>() == std::mem::align_of::<B>();
    // expected contents after an accepted operation are computed per entry below
    let mut expect_a: Vec<u64> = before.clone();
    let mut expect_b: Vec<u64> = before_b.clone();
    let mut must_reject = !same;
    let mut skip = false;
    macro_rules! rejected_or {
        ($r:expr, $what:expr) => {
            match (&$r, must_reject) {
                (Ok(_), true) => cx.bad(&format!("{}:admitted", $what), format!("{} admitted a value of type {} into / as a vector of {}", $what, B::NAME, A::NAME)),
                (Err(_), false) => cx.bad(&format!("{}:refused", $what), format!("{} refused the matching type {}", $what, A::NAME)),
                _ => {}
            }
        };
    }
    match entry {
        0 | 1 | 2 | 3 => {
            let at = if entry >= 2 { Some(idx) } else { None };
            let val = B::mk(50);
            let k = val.key();
            let r = if entry % 2 == 0 {
                call(|| match at {
                    None => va.push(AnyValueWrapper::new(val)),
                    Some(i) => va.insert(i, AnyValueWrapper::new(val)),
                })
            } else {
                let mut keep = ManuallyDrop::new(val);
                let raw = unsafe { AnyValueRaw::new(NonNull::from(&mut *keep).cast::<u8>(), size_b, tid_b) };
                let r = call(|| match at {
                    None => va.push(raw),
                    Some(i) => va.insert(i, raw),
                });
                if r.is_err() {
                    unsafe { ManuallyDrop::drop(&mut keep) };
                }
                r
            };
            rejected_or!(r, ENTRY_NAMES[entry as usize]);
            if same {
                expect_a.insert(at.unwrap_or(len), k);
            }
        }
        4 => {
            // splice with raw items: item j of k has type B, the others type A
            let k = 1 + ch.pick(3) as usize;
            let j = ch.pick(k as u32) as usize;
            let a = idx.min(len);
            let b = (a + ch.pick(2) as usize).min(len);
            let _ = write!(tr, " range {}..{} items {} foreign #{}", a, b, k, j);
            let mut own_a: Vec<ManuallyDrop<A>> = (0..k).map(|i| ManuallyDrop::new(A::mk(60 + i as u32))).collect();
            let mut own_b = ManuallyDrop::new(B::mk(70));
            let own_keys: Vec<u64> = own_a.iter().map(|x| x.key()).collect();
            let own_b_key = own_b.key();
            let raws: Vec<AnyValueRaw> = (0..k)
                .map(|i| unsafe {
                    if i == j {
                        AnyValueRaw::new(NonNull::from(&mut *own_b).cast::<u8>(), size_b, tid_b)
                    } else {
                        AnyValueRaw::new(NonNull::from(&mut *own_a[i]).cast::<u8>(), std::mem::size_of::<A>(), TypeId::of::<A>())
                    }
                })
                .collect();
            let r = call(|| {
                let it = va.splice(a..b, raws);
                drop(it);
            });
            // slot j of the A values was replaced by the B value and never offered
            unsafe { ManuallyDrop::drop(&mut own_a[j]) };
            rejected_or!(r, "splice");
            if same {
                let mut e: Vec<u64> = before[..a].to_vec();
                for i in 0..k {
                    e.push(if i == j { own_b_key } else { own_keys[i] });
                }
                e.extend_from_slice(&before[b..]);
                expect_a = e;
                // all items were moved in
            } else {
                // after a rejected splice the vector must merely be valid; items before j were
                // moved in or leaked, the rest is still ours - conservatively leak what is unclear
                // and only require validity (checked below through downcast_ref / drop)
                skip = true;
                match keys::<A>(&va) {
                    None => cx.bad("splice:invalid", "vector lost its element type after a rejected splice".into()),
                    Some(ks) => {
                        if ks.len() != va.len() {
                            cx.bad("splice:invalid", "len inconsistent after a rejected splice".into());
                        }
                        // every visible element must be one we know: old ones or offered A items
                        let mut known: Vec<u64> = before.clone();
                        known.extend((0..k).filter(|i| *i != j).map(|i| own_keys[i]));
                        for kx in &ks {
                            if let Some(p) = known.iter().position(|q| q == kx) {
                                known.remove(p);
                            } else {
                                cx.bad("splice:reinterpreted", format!("after a rejected splice the vector shows a value {} that is neither an old element nor an offered {} item", kx, A::NAME));
                            }
                        }
                    }
                }
                // items not consumed: drop those of type A that are not visible... unknowable -> leak all offered
                unsafe { ManuallyDrop::drop(&mut own_b) };
            }
        }
        5 | 6 | 7 | 8 | 9 | 10 => {
            if len == 0 {
                skip = true;
            } else {
                let i = idx.min(len - 1);
                let mut lb = ManuallyDrop::new(B::mk(80));
                let lb_key = lb.key();
                let r = call(|| match entry {
                    5 => {
                        let mut e = va.at_mut(i);
                        let mut w = AnyValueWrapper::new(unsafe { ManuallyDrop::take(&mut lb) });
                        let r = std::panic::catch_unwind(std::panic::AssertUnwindSafe(|| e.swap(&mut w)));
                        unsafe { std::ptr::write(&mut *lb, w.downcast::<B>().unwrap()) };
                        if let Err(p) = r {
                            std::panic::resume_unwind(p)
                        }
                    }
                    6 => {
                        let mut e = va.at_mut(i);
                        let mut raw = unsafe { AnyValueRaw::new(NonNull::from(&mut *lb).cast::<u8>(), size_b, tid_b) };
                        e.swap(&mut raw);
                    }
                    7 => {
                        let mut e = va.at_mut(i);
                        let mut f = vb.at_mut(0);
                        e.swap(&mut *f);
                    }
                    8 => {
                        let mut h = va.remove(i);
                        let mut w = AnyValueWrapper::new(unsafe { ManuallyDrop::take(&mut lb) });
                        let r = std::panic::catch_unwind(std::panic::AssertUnwindSafe(|| h.swap(&mut w)));
                        unsafe { std::ptr::write(&mut *lb, w.downcast::<B>().unwrap()) };
                        // put the element back where it was
                        let val = h.downcast::<A>().unwrap();
                        va.downcast_mut::<A>().unwrap().insert(i, val);
                        if let Err(p) = r {
                            std::panic::resume_unwind(p)
                        }
                    }
                    9 => {
                        let mut e = va.at_mut(i);
                        let mut w = AnyValueWrapper::new(unsafe { ManuallyDrop::take(&mut lb) });
                        let r = std::panic::catch_unwind(std::panic::AssertUnwindSafe(|| w.swap(&mut *e)));
                        unsafe { std::ptr::write(&mut *lb, w.downcast::<B>().unwrap()) };
                        if let Err(p) = r {
                            std::panic::resume_unwind(p)
                        }
                    }
                    _ => {
                        let mut d = va.drain(i..i + 1);
                        let mut e = d.next().unwrap();
                        let mut raw = unsafe { AnyValueRaw::new(NonNull::from(&mut *lb).cast::<u8>(), size_b, tid_b) };
                        let r = std::panic::catch_unwind(std::panic::AssertUnwindSafe(|| e.swap(&mut raw)));
                        let val = e.downcast::<A>().unwrap();
                        drop(d);
                        va.downcast_mut::<A>().unwrap().insert(i, val);
                        if let Err(p) = r {
                            std::panic::resume_unwind(p)
                        }
                    }
                });
                rejected_or!(r, ENTRY_NAMES[entry as usize]);
                if same {
                    if entry == 7 {
                        expect_a[i] = before_b[0];
                        expect_b[0] = before[i];
                    } else {
                        expect_a[i] = lb_key;
                        if lb.key() != before[i] {
                            cx.bad("swap:local", format!("after swap the local value holds {} instead of {}", lb.key(), before[i]));
                        }
                    }
                } else if lb.key() != lb_key {
                    cx.bad("swap:local-changed", "a rejected swap changed the offered value".into());
                }
                unsafe { ManuallyDrop::drop(&mut lb) };
                nontrivial = true;
            }
        }
        11 => {
            must_reject = false;
            let r1 = va.downcast_ref::<B>().is_some();
            let r2 = va.downcast_mut::<B>().is_some();
            if r1 != same || r2 != same {
                cx.bad("vec.downcast", format!("AnyVec<{}>::downcast_ref/mut::<{}>() gave {}/{}", A::NAME, B::NAME, r1, r2));
            }
        }
        12 | 13 | 14 | 15 | 16 | 19 => {
            must_reject = false;
            if len == 0 {
                skip = true;
            } else {
                let i = idx.min(len - 1);
                nontrivial = true;
                let r = call(|| -> (bool, Option<u64>) {
                    match entry {
                        12 => {
                            let e = va.at(i);
                            (e.downcast_ref::<B>().is_some(), e.downcast_ref::<B>().map(|x| x.key()))
                        }
                        13 => {
                            let mut e = va.at_mut(i);
                            let k = e.downcast_mut::<B>().map(|x| x.key());
                            (k.is_some(), k)
                        }
                        14 => {
                            let mut h = va.remove(i);
                            let a = h.downcast_ref::<B>().is_some();
                            let b = h.downcast_mut::<B>().is_some();
                            assert_eq!(a, b, "downcast_ref and downcast_mut disagree");
                            let k = h.downcast::<B>().map(|x| x.key());
                            assert_eq!(a, k.is_some(), "downcast_ref and downcast disagree");
                            (a, k)
                        }
                        15 => {
                            let h = va.pop().unwrap();
                            let k = h.downcast::<B>().map(|x| x.key());
                            (k.is_some(), k)
                        }
                        16 => {
                            let mut d = va.drain(i..i + 1);
                            let e = d.next().unwrap();
                            let k = e.downcast::<B>().map(|x| x.key());
                            drop(d);
                            (k.is_some(), k)
                        }
                        _ => {
                            let e = va.at(i);
                            let k = e.lazy_clone().downcast::<B>().map(|x| x.key());
                            (k.is_some(), k)
                        }
                    }
                });
                match r {
                    Err(_) => cx.bad("downcast:panic", format!("{} panicked", ENTRY_NAMES[entry as usize])),
                    Ok((some, k)) => {
                        if some != same {
                            cx.bad("downcast:wrong-verdict", format!("{} of a {} as {} gave {}", ENTRY_NAMES[entry as usize], A::NAME, B::NAME, if some { "Some" } else { "None" }));
                        }
                        let which = match entry {
                            15 => len - 1,
                            _ => i,
                        };
                        if same && k != Some(before[which]) {
                            cx.bad("downcast:wrong-value", format!("{} returned key {:?}, element is {}", ENTRY_NAMES[entry as usize], k, before[which]));
                        }
                    }
                }
                // consuming downcasts remove the element whatever the verdict (the handle is consumed)
                match entry {
                    14 | 16 => {
                        expect_a.remove(i);
                    }
                    15 => {
                        expect_a.pop();
                    }
                    _ => {}
                }
            }
        }
        17 => {
            must_reject = false;
            let w = AnyValueWrapper::new(A::mk(90));
            let a = w.downcast_ref::<B>().is_some();
            let k = w.downcast::<B>();
            if a != same || k.is_some() != same {
                cx.bad("wrapper.downcast", format!("AnyValueWrapper<{}>::downcast::<{}> gave {}", A::NAME, B::NAME, k.is_some()));
            }
        }
        18 => {
            must_reject = false;
            let mut own = A::mk(91);
            let mut raw = unsafe { AnyValueRaw::new(NonNull::from(&mut own).cast::<u8>(), std::mem::size_of::<A>(), TypeId::of::<A>()) };
            let a = raw.downcast_ref::<B>().is_some();
            let b = raw.downcast_mut::<B>().is_some();
            if a != same || b != same {
                cx.bad("raw.downcast", format!("AnyValueRaw of {} downcast_ref/mut::<{}> gave {}/{}", A::NAME, B::NAME, a, b));
            }
        }
        20 => {
            // push a removal handle of the B-vector into the A-vector
            let r = call(|| {
                let h = vb.remove(1);
                va.push(h);
            });
            rejected_or!(r, "push(handle)");
            // the handle is consumed either way: moved (accepted) or dropped (rejected)
            let moved = expect_b.remove(1);
            if same {
                expect_a.push(moved);
            }
        }
        _ => {
            must_reject = false;
            let tid = va.element_typeid() == TypeId::of::<A>();
            let lay = va.element_layout() == std::alloc::Layout::new::<A>();
            let mut ok = tid && lay;
            if len > 0 {
                let i = idx.min(len - 1);
                let e = va.at(i);
                ok &= e.value_typeid() == TypeId::of::<A>() && AnyValueTypeless::size(&*e) == std::mem::size_of::<A>();
                let mut h = va.remove(i);
                ok &= h.value_typeid() == TypeId::of::<A>() && h.size() == std::mem::size_of::<A>() && h.as_bytes().len() == std::mem::size_of::<A>() && h.as_bytes_mut().len() == std::mem::size_of::<A>();
                let val = h.downcast::<A>().unwrap();
                va.downcast_mut::<A>().unwrap().insert(i, val);
            }
            let w = AnyValueWrapper::new(B::mk(1));
            ok &= w.value_typeid() == tid_b && w.size() == size_b;
            if !ok {
                cx.bad("reports", "element_typeid / element_layout / value_typeid / size do not describe the real type".into());
            }
        }
    }
    // post-state
    if !skip && cx.problem.is_none() {
        let rejected = must_reject;
        let want_a = if rejected { &before } else { &expect_a };
        match keys::<A>(&va) {
            None => cx.bad("post:type-lost", "the vector no longer downcasts to its element type".into()),
            Some(k) => {
                if &k != want_a {
                    cx.bad(
                        if rejected { "post:changed-by-rejected" } else { "post:contents" },
                        format!("vector of {} is {:?}, expected {:?} ({})", A::NAME, k, want_a, if rejected { "a rejected operation must leave it unchanged" } else { "after the accepted operation" }),
                    );
                }
            }
        }
        let want_b = if entry == 20 || !rejected { &expect_b } else { &before_b };
        if keys::<B>(&vb).as_ref() != Some(want_b) {
            cx.bad("post:other-vector", format!("the other vector changed unexpectedly: {:?} expected {:?}", keys::<B>(&vb), want_b));
        }
    }
    let _ = live0;
    let ra = call(move || drop(va));
    let rb = call(move || drop(vb));
    if ra.is_err() || rb.is_err() {
        cx.bad("post:drop", "dropping the vectors panicked".into());
    }
    if (A::TRACKED || B::TRACKED) && !skip {
        let live = reg(|r| r.live);
        if live != 0 {
            cx.bad("post:leak", format!("{} tracked values still alive at the end (a rejected value must be destroyed exactly once)", live));
        }
    }
    if let Some(f) = elem::registry_flags() {
        cx.bad("post:registry", f);
    }
    let violation = cx.problem.map(|(sig, msg)| Violation { monitor: MON_MODEL, sig, msg });
    if let Some(v) = &violation {
        let _ = write!(tr, " => VIOLATION[{}] {}", v.sig, v.msg);
    }
    CaseOut { violation, desync: None, nontrivial, classes: if same { vec!["same-type"] } else { vec!["different-types"] }, avoided: 0, extra_evals: 0, op_panicked: false }
}

pub fn pair_run<A: K4, B: K4>(_spec: &crate::world::Spec, _shape: crate::cases::Shape, ch: &mut Ch, tr: &mut String) -> CaseOut {
    pair_case::<A, B>(ch, tr)
}

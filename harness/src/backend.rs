//! Storage backends under test and the capability shims the interpreter uses (DESIGN.md §2.3).
//!
//! * `GuardB`  – user-defined resizable backend: guard zones, poison, quarantine, relocates on
//!               every capacity change, logs every interface call.
//! * `FixedB`  – user-defined fixed-capacity backend relying on the trait's default `expand`.
//! * `Multi`   – enum backend delegating to Heap / GuardB / FixedB, chosen at run time, so one
//!               monomorphic interpreter covers three backends (and mixes them across slots).
//! * built-in `Heap`, `Stack<SIZE>`, `StackN<N,SIZE>`, `Empty`.

use std::alloc::Layout;
use std::cell::UnsafeCell;

use any_vec::mem::{Mem, MemBuilder, MemBuilderSizeable, MemRawParts, MemResizable};
use any_vec::traits::Trait;
use any_vec::{AnyVec, SatisfyTraits};

use crate::alloc::{suspend, GuardBlock};

// ---------------------------------------------------------------------------------------
// backend-side log (thread-local, reset per case)

#[derive(Default)]
pub struct MemLog {
    pub builds: u64,
    pub expands: u64,
    pub expand_exacts: u64,
    pub resizes: u64,
    pub drops: u64,
    /// capacity-changing events (relocations)
    pub relocations: u64,
    pub build_layouts: Vec<(u32, usize, usize)>, // (tag, size, align)
    pub dropped_tags: Vec<u32>,
    pub quarantine: Vec<GuardBlock>,
    pub live: Vec<(u32, GuardBlock)>,
    // sticky violations
    pub oob_write: bool,
    pub uaf_write: bool,
    pub release_with_live: bool,
    pub discard_unpoisoned: bool,
    pub detail: Option<String>,
}

thread_local! {
    static MEMLOG: UnsafeCell<MemLog> = UnsafeCell::new(MemLog::default());
}
pub fn memlog<R>(f: impl FnOnce(&mut MemLog) -> R) -> R {
    MEMLOG.with(|m| unsafe { f(&mut *m.get()) })
}

/// Per-element-type hook: does this slot hold a *live* tracked element? (set by the world per case)
thread_local! {
    static LIVE_PROBE: std::cell::Cell<Option<(usize, fn(&[u8]) -> bool)>> = const { std::cell::Cell::new(None) };
}
pub fn set_live_probe(elem_size: usize, f: fn(&[u8]) -> bool) {
    LIVE_PROBE.with(|p| p.set(Some((elem_size, f))));
}

pub fn reset_memlog() {
    memlog(|m| {
        for (_, b) in m.live.drain(..) {
            unsafe { b.release() };
        }
        for b in m.quarantine.drain(..) {
            unsafe { b.release() };
        }
        *m = MemLog::default();
    })
}

fn note(m: &mut MemLog, s: String) {
    if m.detail.is_none() {
        m.detail = Some(s);
    }
}

/// Verify guard zones of live guard blocks and poison of quarantined ones.
pub fn verify_guard_blocks() {
    memlog(|m| unsafe {
        let mut oob = None;
        for (tag, b) in m.live.iter() {
            if !b.guards_intact() {
                oob = Some(*tag);
            }
        }
        if let Some(tag) = oob {
            m.oob_write = true;
            note(m, format!("guard zone of backend block (vector tag {}) overwritten", tag));
        }
        let mut uaf = false;
        for b in m.quarantine.iter() {
            if !b.all_poison() || !b.guards_intact() {
                uaf = true;
            }
        }
        if uaf {
            m.uaf_write = true;
            note(m, "released/relocated-from backend block written after release (stale pointer)".into());
        }
    })
}

pub fn memlog_flags() -> Option<String> {
    memlog(|m| {
        let mut v = Vec::new();
        if m.oob_write {
            v.push("out-of-bounds-write(guard zone)");
        }
        if m.uaf_write {
            v.push("write-through-stale-pointer(quarantine)");
        }
        if m.release_with_live {
            v.push("storage-released-while-elements-alive");
        }
        if m.discard_unpoisoned {
            v.push("shrinking-resize-discarded-initialised-slots");
        }
        if v.is_empty() {
            None
        } else {
            Some(format!("{} ({})", v.join("+"), m.detail.clone().unwrap_or_default()))
        }
    })
}

fn dangling(l: &Layout) -> *mut u8 {
    l.align() as *mut u8
}

// ---------------------------------------------------------------------------------------
// GuardMem: resizable, relocating

pub struct GuardB {
    pub tag: u32,
}
thread_local! {
    static NEXT_CLONE_TAG: std::cell::Cell<u32> = const { std::cell::Cell::new(1_000_000) };
}
/// A cloned builder builds storage for *another* vector: it gets a tag of its own.
fn fresh_clone_tag() -> u32 {
    NEXT_CLONE_TAG.with(|t| {
        let v = t.get();
        t.set(v + 1);
        v
    })
}
impl Clone for GuardB {
    fn clone(&self) -> Self {
        GuardB { tag: fresh_clone_tag() }
    }
}

pub struct GuardMem {
    tag: u32,
    layout: Layout,
    cap: usize,
    blk: Option<GuardBlock>,
}

impl GuardMem {
    fn new(tag: u32, layout: Layout) -> Self {
        GuardMem { tag, layout, cap: 0, blk: None }
    }

    fn set_capacity(&mut self, new_cap: usize) {
        let _s = suspend();
        if new_cap == self.cap {
            return;
        }
        let es = self.layout.size();
        let bytes = es.checked_mul(new_cap).expect("GuardMem: capacity overflow");
        assert!(bytes <= isize::MAX as usize, "GuardMem: capacity overflow");
        let newblk = if bytes == 0 {
            None
        } else {
            let virt = bytes > crate::alloc::VIRT_LIMIT;
            Some(unsafe { GuardBlock::new(bytes, self.layout.align(), virt) })
        };
        if let (Some(old), Some(new)) = (&self.blk, &newblk) {
            let n = old.actual.min(new.actual).min(es * self.cap.min(new_cap));
            unsafe { std::ptr::copy_nonoverlapping(old.user, new.user, n) };
        }
        let old = self.blk.take();
        let (tag, old_cap) = (self.tag, self.cap);
        memlog(|m| {
            m.relocations += 1;
            if let Some(old) = old {
                // a shrinking resize must discard only slots that hold nothing (poison)
                if new_cap < old_cap && !old.virt {
                    let from = es * new_cap;
                    let to = (es * old_cap).min(old.actual);
                    let tail = unsafe { std::slice::from_raw_parts(old.user.add(from), to - from) };
                    if let Some((esz, probe)) = LIVE_PROBE.with(|p| p.get()) {
                        if esz == es && es > 0 {
                            for ch in tail.chunks_exact(es) {
                                if probe(ch) {
                                    m.discard_unpoisoned = true;
                                    note(m, format!("resize({}) of vector tag {} (capacity {}) discarded a live element", new_cap, tag, old_cap));
                                    break;
                                }
                            }
                        }
                    }
                }
                m.live.retain(|(_, b)| b.user != old.user);
                if !unsafe { old.guards_intact() } {
                    m.oob_write = true;
                    note(m, format!("guard zone of backend block (vector tag {}) overwritten", tag));
                }
                unsafe { old.poison() };
                m.quarantine.push(old);
            }
            if let Some(nb) = newblk {
                m.live.push((tag, nb));
            }
        });
        self.blk = newblk;
        self.cap = new_cap;
    }
}

impl Mem for GuardMem {
    fn as_ptr(&self) -> *const u8 {
        match &self.blk {
            Some(b) => b.user,
            None => dangling(&self.layout),
        }
    }
    fn as_mut_ptr(&mut self) -> *mut u8 {
        match &self.blk {
            Some(b) => b.user,
            None => dangling(&self.layout),
        }
    }
    fn element_layout(&self) -> Layout {
        self.layout
    }
    fn size(&self) -> usize {
        if self.layout.size() == 0 {
            // zero-sized elements need no storage; report what was asked for at least
            self.cap
        } else {
            self.cap
        }
    }
    fn expand(&mut self, additional: usize) {
        {
            let _s = suspend();
            memlog(|m| m.expands += 1);
        }
        let req = self.cap.checked_add(additional).expect("GuardMem: capacity overflow");
        let new = req.max(self.cap.saturating_mul(2));
        self.set_capacity(new);
    }
}
impl MemResizable for GuardMem {
    fn expand_exact(&mut self, additional: usize) {
        {
            let _s = suspend();
            memlog(|m| m.expand_exacts += 1);
        }
        let req = self.cap.checked_add(additional).expect("GuardMem: capacity overflow");
        self.set_capacity(req);
    }
    fn resize(&mut self, new_size: usize) {
        {
            let _s = suspend();
            memlog(|m| m.resizes += 1);
        }
        self.set_capacity(new_size);
    }
}
impl Drop for GuardMem {
    fn drop(&mut self) {
        let _s = suspend();
        let tag = self.tag;
        let es = self.layout.size();
        let cap = self.cap;
        let old = self.blk.take();
        memlog(|m| {
            m.drops += 1;
            m.dropped_tags.push(tag);
            if let Some(old) = old {
                // storage must be released only after the remaining elements were destroyed
                // (not judged while a panic unwinds: leaking the rest is then permitted)
                if let Some((esz, probe)) = LIVE_PROBE.with(|p| p.get()) {
                    if esz == es && es > 0 && !old.virt && !std::thread::panicking() {
                        let all = unsafe { std::slice::from_raw_parts(old.user, (es * cap).min(old.actual)) };
                        for ch in all.chunks_exact(es) {
                            if probe(ch) {
                                m.release_with_live = true;
                                note(m, format!("storage of vector tag {} released while it still held a live element", tag));
                                break;
                            }
                        }
                    }
                }
                m.live.retain(|(_, b)| b.user != old.user);
                if !unsafe { old.guards_intact() } {
                    m.oob_write = true;
                    note(m, format!("guard zone of backend block (vector tag {}) overwritten", tag));
                }
                unsafe { old.poison() };
                m.quarantine.push(old);
            }
        });
    }
}
impl MemBuilder for GuardB {
    type Mem = GuardMem;
    fn build(&mut self, element_layout: Layout) -> GuardMem {
        let _s = suspend();
        let tag = self.tag;
        memlog(|m| {
            m.builds += 1;
            m.build_layouts.push((tag, element_layout.size(), element_layout.align()));
        });
        GuardMem::new(self.tag, element_layout)
    }
}
impl MemBuilderSizeable for GuardB {
    fn build_with_size(&mut self, element_layout: Layout, capacity: usize) -> GuardMem {
        let mut m = self.build(element_layout);
        m.set_capacity(capacity);
        m
    }
}

// ---------------------------------------------------------------------------------------
// FixedB: fixed capacity, default `expand` (panics)

pub struct FixedB {
    pub tag: u32,
    pub cap: usize,
}
impl Clone for FixedB {
    fn clone(&self) -> Self {
        FixedB { tag: fresh_clone_tag(), cap: self.cap }
    }
}
pub struct FixedMem {
    inner: GuardMem,
}
impl Mem for FixedMem {
    fn as_ptr(&self) -> *const u8 {
        self.inner.as_ptr()
    }
    fn as_mut_ptr(&mut self) -> *mut u8 {
        self.inner.as_mut_ptr()
    }
    fn element_layout(&self) -> Layout {
        self.inner.element_layout()
    }
    fn size(&self) -> usize {
        self.inner.cap
    }
    // `expand` deliberately not overridden: the trait default panics.
}
impl MemBuilder for FixedB {
    type Mem = FixedMem;
    fn build(&mut self, element_layout: Layout) -> FixedMem {
        let mut inner = GuardB { tag: self.tag }.build(element_layout);
        inner.set_capacity(self.cap);
        memlog(|m| m.relocations = m.relocations.saturating_sub(1));
        FixedMem { inner }
    }
}

// ---------------------------------------------------------------------------------------
// Multi: run-time choice of Heap / GuardB / FixedB

#[cfg(feature = "lib_alloc")]
type HeapMemT = <any_vec::mem::Heap as MemBuilder>::Mem;

#[derive(Clone)]
pub enum Multi {
    #[cfg(feature = "lib_alloc")]
    Heap,
    Guard(GuardB),
    Fixed(FixedB),
}
pub enum MultiMem {
    #[cfg(feature = "lib_alloc")]
    Heap(HeapMemT),
    Guard(GuardMem),
    Fixed(FixedMem),
}
impl Mem for MultiMem {
    fn as_ptr(&self) -> *const u8 {
        match self {
            #[cfg(feature = "lib_alloc")]
            MultiMem::Heap(m) => m.as_ptr(),
            MultiMem::Guard(m) => m.as_ptr(),
            MultiMem::Fixed(m) => m.as_ptr(),
        }
    }
    fn as_mut_ptr(&mut self) -> *mut u8 {
        match self {
            #[cfg(feature = "lib_alloc")]
            MultiMem::Heap(m) => m.as_mut_ptr(),
            MultiMem::Guard(m) => m.as_mut_ptr(),
            MultiMem::Fixed(m) => m.as_mut_ptr(),
        }
    }
    fn element_layout(&self) -> Layout {
        match self {
            #[cfg(feature = "lib_alloc")]
            MultiMem::Heap(m) => m.element_layout(),
            MultiMem::Guard(m) => m.element_layout(),
            MultiMem::Fixed(m) => m.element_layout(),
        }
    }
    fn size(&self) -> usize {
        match self {
            #[cfg(feature = "lib_alloc")]
            MultiMem::Heap(m) => m.size(),
            MultiMem::Guard(m) => m.size(),
            MultiMem::Fixed(m) => m.size(),
        }
    }
    fn expand(&mut self, additional: usize) {
        match self {
            #[cfg(feature = "lib_alloc")]
            MultiMem::Heap(m) => m.expand(additional),
            MultiMem::Guard(m) => m.expand(additional),
            MultiMem::Fixed(m) => m.expand(additional),
        }
    }
}
impl MemResizable for MultiMem {
    fn expand_exact(&mut self, additional: usize) {
        match self {
            #[cfg(feature = "lib_alloc")]
            MultiMem::Heap(m) => m.expand_exact(additional),
            MultiMem::Guard(m) => m.expand_exact(additional),
            MultiMem::Fixed(_) => panic!("Can't change capacity!"),
        }
    }
    fn resize(&mut self, new_size: usize) {
        match self {
            #[cfg(feature = "lib_alloc")]
            MultiMem::Heap(m) => m.resize(new_size),
            MultiMem::Guard(m) => m.resize(new_size),
            MultiMem::Fixed(_) => panic!("Can't change capacity!"),
        }
    }
}
impl MemBuilder for Multi {
    type Mem = MultiMem;
    fn build(&mut self, l: Layout) -> MultiMem {
        match self {
            #[cfg(feature = "lib_alloc")]
            Multi::Heap => MultiMem::Heap(any_vec::mem::Heap.build(l)),
            Multi::Guard(b) => MultiMem::Guard(b.build(l)),
            Multi::Fixed(b) => MultiMem::Fixed(b.build(l)),
        }
    }
}
impl MemBuilderSizeable for Multi {
    fn build_with_size(&mut self, l: Layout, capacity: usize) -> MultiMem {
        match self {
            #[cfg(feature = "lib_alloc")]
            Multi::Heap => MultiMem::Heap(any_vec::mem::Heap.build_with_size(l, capacity)),
            Multi::Guard(b) => MultiMem::Guard(b.build_with_size(l, capacity)),
            Multi::Fixed(b) => MultiMem::Fixed(b.build(l)),
        }
    }
}

// ---------------------------------------------------------------------------------------
// Flavours and capability shims

#[derive(Clone, Copy, Debug, PartialEq, Eq, Hash)]
pub enum Flavour {
    Heap,
    Guard,
    Fixed(usize),
    Stack(usize),  // capacity
    StackN(usize), // capacity
    Empty,
}
impl Flavour {
    pub fn fixed_cap(&self) -> Option<usize> {
        match *self {
            Flavour::Heap | Flavour::Guard => None,
            Flavour::Fixed(c) | Flavour::Stack(c) | Flavour::StackN(c) => Some(c),
            Flavour::Empty => Some(0),
        }
    }
    pub fn uses_global_alloc(&self) -> bool {
        matches!(self, Flavour::Heap)
    }
    pub fn is_inline(&self) -> bool {
        matches!(self, Flavour::Stack(_) | Flavour::StackN(_) | Flavour::Empty)
    }
    pub fn name(&self) -> String {
        match *self {
            Flavour::Heap => "Heap".into(),
            Flavour::Guard => "GuardMem".into(),
            Flavour::Fixed(c) => format!("GuardFixed<{}>", c),
            Flavour::Stack(c) => format!("Stack(cap {})", c),
            Flavour::StackN(c) => format!("StackN(cap {})", c),
            Flavour::Empty => "Empty".into(),
        }
    }
}

/// What the interpreter needs from a backend type. Capability shims default to
/// `unreachable!()` and are overridden where the capability exists, so the interpreter
/// stays generic while `reserve` etc. are only *called* when `RESIZABLE`.
pub trait Backend: MemBuilder + Sized + 'static {
    const NAME: &'static str;
    const RESIZABLE: bool = false;
    const SIZEABLE: bool = false;
    const RAWPARTS: bool = false;
    /// flavours this builder type offers for an element of `elem_size` bytes
    fn flavours(elem_size: usize) -> Vec<Flavour>;
    fn builder(fl: Flavour, tag: u32) -> Self;

    fn reserve<Tr: ?Sized + Trait>(_v: &mut AnyVec<Tr, Self>, _n: usize) {
        unreachable!()
    }
    fn reserve_exact<Tr: ?Sized + Trait>(_v: &mut AnyVec<Tr, Self>, _n: usize) {
        unreachable!()
    }
    fn shrink_to_fit<Tr: ?Sized + Trait>(_v: &mut AnyVec<Tr, Self>) {
        unreachable!()
    }
    fn shrink_to<Tr: ?Sized + Trait>(_v: &mut AnyVec<Tr, Self>, _n: usize) {
        unreachable!()
    }
    /// typed-view variants
    fn t_reserve<Tr: ?Sized + Trait, T: 'static>(_v: &mut AnyVec<Tr, Self>, _n: usize) {
        unreachable!()
    }
    fn t_reserve_exact<Tr: ?Sized + Trait, T: 'static>(_v: &mut AnyVec<Tr, Self>, _n: usize) {
        unreachable!()
    }
    fn t_shrink_to_fit<Tr: ?Sized + Trait, T: 'static>(_v: &mut AnyVec<Tr, Self>) {
        unreachable!()
    }
    fn t_shrink_to<Tr: ?Sized + Trait, T: 'static>(_v: &mut AnyVec<Tr, Self>, _n: usize) {
        unreachable!()
    }
    fn with_capacity<Tr: ?Sized + Trait, T: 'static + SatisfyTraits<Tr>>(_b: Self, _cap: usize) -> AnyVec<Tr, Self> {
        unreachable!()
    }
    /// into_raw_parts -> (optionally field-wise clone, one copy discarded) -> from_raw_parts.
    /// Returns the rebuilt vector and the observed parts.
    fn raw_round_trip<Tr: ?Sized + Trait>(_v: AnyVec<Tr, Self>, _clone_parts: bool) -> (AnyVec<Tr, Self>, PartsSeen) {
        unreachable!()
    }
}

#[derive(Clone, Copy, Debug)]
pub struct PartsSeen {
    pub capacity: usize,
    pub len: usize,
    pub layout: Layout,
    pub typeid: std::any::TypeId,
    pub drop_is_some: bool,
    pub drop_addr: usize,
    pub clone_addr: usize,
    pub handle_addr: usize,
    // the cloned parts (if requested)
    pub c_capacity: usize,
    pub c_len: usize,
    pub c_layout: Layout,
    pub c_typeid: std::any::TypeId,
    pub c_drop_addr: usize,
    pub c_clone_addr: usize,
    pub c_handle_addr: usize,
    pub cloned: bool,
}

macro_rules! resizable_shims {
    () => {
        const RESIZABLE: bool = true;
        fn reserve<Tr: ?Sized + Trait>(v: &mut AnyVec<Tr, Self>, n: usize) {
            v.reserve(n)
        }
        fn reserve_exact<Tr: ?Sized + Trait>(v: &mut AnyVec<Tr, Self>, n: usize) {
            v.reserve_exact(n)
        }
        fn shrink_to_fit<Tr: ?Sized + Trait>(v: &mut AnyVec<Tr, Self>) {
            v.shrink_to_fit()
        }
        fn shrink_to<Tr: ?Sized + Trait>(v: &mut AnyVec<Tr, Self>, n: usize) {
            v.shrink_to(n)
        }
        fn t_reserve<Tr: ?Sized + Trait, T: 'static>(v: &mut AnyVec<Tr, Self>, n: usize) {
            v.downcast_mut::<T>().unwrap().reserve(n)
        }
        fn t_reserve_exact<Tr: ?Sized + Trait, T: 'static>(v: &mut AnyVec<Tr, Self>, n: usize) {
            v.downcast_mut::<T>().unwrap().reserve_exact(n)
        }
        fn t_shrink_to_fit<Tr: ?Sized + Trait, T: 'static>(v: &mut AnyVec<Tr, Self>) {
            v.downcast_mut::<T>().unwrap().shrink_to_fit()
        }
        fn t_shrink_to<Tr: ?Sized + Trait, T: 'static>(v: &mut AnyVec<Tr, Self>, n: usize) {
            v.downcast_mut::<T>().unwrap().shrink_to(n)
        }
    };
}
macro_rules! sizeable_shims {
    () => {
        const SIZEABLE: bool = true;
        fn with_capacity<Tr: ?Sized + Trait, T: 'static + SatisfyTraits<Tr>>(b: Self, cap: usize) -> AnyVec<Tr, Self> {
            AnyVec::<Tr, Self>::with_capacity_in::<T>(cap, b)
        }
    };
}
macro_rules! rawparts_shims {
    ($handle_addr:expr) => {
        const RAWPARTS: bool = true;
        fn raw_round_trip<Tr: ?Sized + Trait>(v: AnyVec<Tr, Self>, clone_parts: bool) -> (AnyVec<Tr, Self>, PartsSeen) {
            let parts = v.into_raw_parts();
            let ha = $handle_addr;
            let mut seen = PartsSeen {
                capacity: parts.capacity,
                len: parts.len,
                layout: parts.element_layout,
                typeid: parts.element_typeid,
                drop_is_some: parts.element_drop.is_some(),
                drop_addr: parts.element_drop.map(|f| f as usize).unwrap_or(0),
                clone_addr: parts.element_clone as usize,
                handle_addr: ha(&parts.mem_handle),
                c_capacity: 0,
                c_len: 0,
                c_layout: parts.element_layout,
                c_typeid: parts.element_typeid,
                c_drop_addr: 0,
                c_clone_addr: 0,
                c_handle_addr: 0,
                cloned: false,
            };
            let parts = if clone_parts {
                let c = parts.clone();
                seen.cloned = true;
                seen.c_capacity = c.capacity;
                seen.c_len = c.len;
                seen.c_layout = c.element_layout;
                seen.c_typeid = c.element_typeid;
                seen.c_drop_addr = c.element_drop.map(|f| f as usize).unwrap_or(0);
                seen.c_clone_addr = c.element_clone as usize;
                seen.c_handle_addr = ha(&c.mem_handle);
                // the original parts are rebuilt; the field-wise copy is discarded (plain data)
                drop(c);
                parts
            } else {
                parts
            };
            (unsafe { AnyVec::from_raw_parts(parts) }, seen)
        }
    };
}

#[cfg(feature = "lib_alloc")]
impl Backend for any_vec::mem::Heap {
    const NAME: &'static str = "Heap";
    fn flavours(_: usize) -> Vec<Flavour> {
        vec![Flavour::Heap]
    }
    fn builder(_: Flavour, _: u32) -> Self {
        any_vec::mem::Heap
    }
    resizable_shims!();
    sizeable_shims!();
    rawparts_shims!(|h: &std::ptr::NonNull<u8>| h.as_ptr() as usize);
}

impl Backend for any_vec::mem::Empty {
    const NAME: &'static str = "Empty";
    fn flavours(_: usize) -> Vec<Flavour> {
        vec![Flavour::Empty]
    }
    fn builder(_: Flavour, _: u32) -> Self {
        any_vec::mem::Empty
    }
    rawparts_shims!(|_h: &()| 0usize);
}

impl Backend for GuardB {
    const NAME: &'static str = "GuardMem";
    fn flavours(_: usize) -> Vec<Flavour> {
        vec![Flavour::Guard]
    }
    fn builder(_: Flavour, tag: u32) -> Self {
        GuardB { tag }
    }
    resizable_shims!();
    sizeable_shims!();
}

impl Backend for FixedB {
    const NAME: &'static str = "GuardFixed";
    fn flavours(_: usize) -> Vec<Flavour> {
        vec![Flavour::Fixed(2), Flavour::Fixed(4), Flavour::Fixed(6)]
    }
    fn builder(fl: Flavour, tag: u32) -> Self {
        FixedB { tag, cap: fl.fixed_cap().unwrap() }
    }
}

impl Backend for Multi {
    const NAME: &'static str = "Multi";
    fn flavours(_: usize) -> Vec<Flavour> {
        let mut v = Vec::new();
        #[cfg(feature = "lib_alloc")]
        v.push(Flavour::Heap);
        v.push(Flavour::Guard);
        v.push(Flavour::Fixed(4));
        v.push(Flavour::Fixed(7));
        v
    }
    fn builder(fl: Flavour, tag: u32) -> Self {
        match fl {
            #[cfg(feature = "lib_alloc")]
            Flavour::Heap => Multi::Heap,
            Flavour::Guard => Multi::Guard(GuardB { tag }),
            Flavour::Fixed(cap) => Multi::Fixed(FixedB { tag, cap }),
            _ => unreachable!(),
        }
    }
    // resizable at the type level; fixed flavours panic at run time like any fixed backend
    resizable_shims!();
    sizeable_shims!();
}

impl<const SIZE: usize> Backend for any_vec::mem::Stack<SIZE> {
    const NAME: &'static str = "Stack";
    fn flavours(elem_size: usize) -> Vec<Flavour> {
        vec![Flavour::Stack(if elem_size == 0 { usize::MAX } else { SIZE / elem_size })]
    }
    fn builder(_: Flavour, _: u32) -> Self {
        any_vec::mem::Stack::<SIZE>
    }
}
impl<const N: usize, const SIZE: usize> Backend for any_vec::mem::StackN<N, SIZE> {
    const NAME: &'static str = "StackN";
    fn flavours(_elem_size: usize) -> Vec<Flavour> {
        vec![Flavour::StackN(N)]
    }
    fn builder(_: Flavour, _: u32) -> Self {
        any_vec::mem::StackN::<N, SIZE>
    }
}

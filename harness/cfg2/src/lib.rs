#![allow(non_camel_case_types, unused_imports)]
use any_vec::traits::*;
use anyvec_pbt::backend::{FixedB, GuardB, Multi};
use anyvec_pbt::configs::*;
use anyvec_pbt::elem::*;
#[cfg(feature = "lib_alloc")]
type Heap = any_vec::mem::Heap;
type Stack<const S: usize> = any_vec::mem::Stack<S>;
type StackN<const N: usize, const S: usize> = any_vec::mem::StackN<N, S>;

#[cfg(feature = "lib_alloc")]
anyvec_pbt::configs! {
    Tr1_StackBig: Tr1, Stack<140>, dyn Cloneable, G_BACKEND | G_STACK;
    Tr16a4_Multi: Tr16a4, Multi, dyn Cloneable, G_LAYOUT;
    Tr16_EmptyA:   Tr16,   any_vec::mem::Empty, dyn Cloneable, G_ALIGN;
    Tr64_StackA:   Tr64,   Stack<192>,      dyn Cloneable, G_ALIGN;
    Tr0a16_Multi: Tr0a16, Multi, dyn Cloneable, G_LAYOUT;
    Tr16_Multi:   Tr16,   Multi, dyn Cloneable, G_LAYOUT | G_FAULT;
    Pl3_Multi:    Pl3,    Multi, dyn Cloneable, G_LAYOUT;
    Tr24_Heap:    Tr24,   Heap,   dyn Cloneable, G_BACKEND | G_RAW;
    Pl8_Heap:     Pl8,    Heap,   dyn Cloneable, G_RAW;
    Tr8_Fixed:    Tr8,    FixedB, dyn Cloneable, G_BACKEND;
    Tr8_StackN:   Tr8,    StackN<4, 40>,  dyn Cloneable, G_BACKEND | G_STACK | G_FAULT;
    Tr8_Heap_Sync:  Tr8, Heap, dyn Sync,                    G_CONSTRAINT | G_RAW;
}

#[cfg(not(feature = "lib_alloc"))]
anyvec_pbt::configs! {
    Tr1_StackBig: Tr1, Stack<140>, dyn Cloneable, G_BACKEND | G_STACK;
    Tr16_EmptyA:   Tr16,   any_vec::mem::Empty, dyn Cloneable, G_ALIGN;
    Tr64_StackA:   Tr64,   Stack<192>,      dyn Cloneable, G_ALIGN;
    Tr24_Stack:   Tr24,   Stack<100>,     dyn Cloneable, G_BACKEND | G_STACK;
    Pl3_StackN:   Pl3,    StackN<5, 16>,  dyn Cloneable, G_BACKEND | G_STACK;
}

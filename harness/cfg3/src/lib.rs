#![allow(non_camel_case_types, unused_imports)]
use any_vec::traits::*;
use anyvec_pbt::backend::{FixedB, GuardB, Multi};
use anyvec_pbt::configs::*;
use anyvec_pbt::elem::*;
#[cfg(feature = "lib_alloc")]
type Heap = any_vec::mem::Heap;
type Stack<const S: usize> = any_vec::mem::Stack<S>;
type StackN<const N: usize, const S: usize> = any_vec::mem::StackN<N, S>;

#[cfg(feature = "lib_alloc")]
anyvec_pbt::configs! {
    Pl3_StackBig: Pl3, Stack<420>, dyn Cloneable, G_BACKEND | G_STACK;
    Pl8a2_Multi:  Pl8a2,  Multi, dyn Cloneable, G_LAYOUT;
    Cc8_Multi:    Cc8,    Multi, dyn Cloneable, G_LAYOUT;
    Tr64_GuardA:   Tr64,   GuardB,          dyn Cloneable, G_ALIGN;
    Tr160_StackA:  Tr160,  Stack<320>,      dyn Cloneable, G_ALIGN;
    Tr1_Multi:    Tr1,    Multi, dyn Cloneable, G_LAYOUT | G_FAULT;
    Tr24_Multi:   Tr24,   Multi, dyn Cloneable, G_LAYOUT | G_CORE | G_FAULT;
    Pl8_Multi:    Pl8,    Multi, dyn Cloneable, G_LAYOUT | G_FAULT;
    Pl3_Heap:     Pl3,    Heap,   dyn Cloneable, G_BACKEND | G_RAW;
    Tr8_Empty:    Tr8,    any_vec::mem::Empty, dyn Cloneable, G_RAW;
    Tr0a16_Empty: Tr0a16, any_vec::mem::Empty, dyn None, G_RAW;
    Tr8_Stack:    Tr8,    Stack<40>,      dyn Cloneable, G_BACKEND | G_STACK | G_FAULT;
    Tr24_StackN:  Tr24,   StackN<3, 72>,  dyn Cloneable, G_BACKEND | G_STACK;
    Tr8_Heap_SS:    Tr8, Heap, dyn Send + Sync,             G_CONSTRAINT | G_RAW;
}

#[cfg(not(feature = "lib_alloc"))]
anyvec_pbt::configs! {
    Pl3_StackBig: Pl3, Stack<420>, dyn Cloneable, G_BACKEND | G_STACK;
    Tr64_GuardA:   Tr64,   GuardB,          dyn Cloneable, G_ALIGN;
    Tr160_StackA:  Tr160,  Stack<320>,      dyn Cloneable, G_ALIGN;
    Pl3_Stack:    Pl3,    Stack<17>,      dyn Cloneable, G_BACKEND | G_STACK;
    Tr0_StackN:   Tr0,    StackN<4, 0>,   dyn Cloneable, G_BACKEND | G_STACK;
}

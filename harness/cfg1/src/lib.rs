#![allow(non_camel_case_types, unused_imports)]
use any_vec::traits::*;
use anyvec_pbt::backend::{FixedB, GuardB, Multi};
use anyvec_pbt::configs::*;
use anyvec_pbt::elem::*;
#[cfg(feature = "lib_alloc")]
type Heap = any_vec::mem::Heap;
type Stack<const S: usize> = any_vec::mem::Stack<S>;
type StackN<const N: usize, const S: usize> = any_vec::mem::StackN<N, S>;

#[cfg(feature = "lib_alloc")]
anyvec_pbt::configs! {
    Tr4a1_Multi:  Tr4a1,  Multi, dyn Cloneable, G_LAYOUT;
    Tr0a16_StackA: Tr0a16, Stack<16>,       dyn Cloneable, G_ALIGN;
    Tr16_StackA:   Tr16,   Stack<64>,       dyn Cloneable, G_ALIGN;
    Tr0_Multi:    Tr0,    Multi, dyn Cloneable, G_LAYOUT | G_FAULT;
    Tr12_Multi:   Tr12,   Multi, dyn Cloneable, G_LAYOUT;
    Pl1_Multi:    Pl1,    Multi, dyn Cloneable, G_LAYOUT | G_CORE;
    Tr8_Heap:     Tr8,    Heap,   dyn Cloneable, G_BACKEND | G_CORE | G_RAW | G_FAULT;
    Tr160_Heap:   Tr160,  Heap,   dyn Cloneable, G_RAW;
    Tr3_Guard:    Tr3,    GuardB, dyn Cloneable, G_BACKEND | G_FAULT;
    Tr1_Stack:    Tr1,    Stack<6>,       dyn Cloneable, G_BACKEND | G_STACK;
    Tr8_Heap_Send:  Tr8, Heap, dyn Send,                    G_CONSTRAINT | G_RAW;
}

#[cfg(not(feature = "lib_alloc"))]
anyvec_pbt::configs! {
    Tr0a16_StackA: Tr0a16, Stack<16>,       dyn Cloneable, G_ALIGN;
    Tr16_StackA:   Tr16,   Stack<64>,       dyn Cloneable, G_ALIGN;
    Tr8_Stack:    Tr8,    Stack<40>,      dyn Cloneable, G_BACKEND | G_STACK | G_FAULT;
    Tr24_StackN:  Tr24,   StackN<3, 72>,  dyn Cloneable, G_BACKEND | G_STACK;
}

#![allow(non_camel_case_types, unused_imports)]
use any_vec::traits::*;
use anyvec_pbt::backend::{FixedB, GuardB, Multi};
use anyvec_pbt::configs::*;
use anyvec_pbt::elem::*;
#[cfg(feature = "lib_alloc")]
type Heap = any_vec::mem::Heap;
type Stack<const S: usize> = any_vec::mem::Stack<S>;
type StackN<const N: usize, const S: usize> = any_vec::mem::StackN<N, S>;

#[cfg(feature = "lib_alloc")]
anyvec_pbt::configs! {
    Pl2a1_StackNBig: Pl2a1, StackN<70, 140>, dyn Cloneable, G_BACKEND | G_STACK;
    Pl2a1_Stack:  Pl2a1,  Stack<9>, dyn Cloneable, G_BACKEND | G_STACK;
    Cc0_Multi:    Cc0,    Multi, dyn Cloneable, G_LAYOUT;
    Tr16_FixedA:   Tr16,   FixedB,          dyn Cloneable, G_ALIGN;
    Pl16_StackA:   Pl16,   Stack<48>,       dyn None,      G_ALIGN;
    Tr2_Multi:    Tr2,    Multi, dyn Cloneable, G_LAYOUT;
    Tr64_Multi:   Tr64,   Multi, dyn Cloneable, G_LAYOUT;
    Pl16_Multi:   Pl16,   Multi, dyn Cloneable, G_LAYOUT;
    Tr0_Heap:     Tr0,    Heap,   dyn Cloneable, G_BACKEND | G_RAW;
    Tr0_Empty:    Tr0,    any_vec::mem::Empty, dyn None, G_RAW;
    Tr24_Stack:   Tr24,   Stack<100>,     dyn Cloneable, G_BACKEND | G_STACK;
    Pl3_StackN:   Pl3,    StackN<5, 16>,  dyn Cloneable, G_BACKEND | G_STACK;
    Tr8_Heap_CSend: Tr8, Heap, dyn Cloneable + Send,        G_CONSTRAINT | G_RAW;
}

#[cfg(not(feature = "lib_alloc"))]
anyvec_pbt::configs! {
    Pl2a1_StackNBig: Pl2a1, StackN<70, 140>, dyn Cloneable, G_BACKEND | G_STACK;
    Pl2a1_Stack:  Pl2a1,  Stack<9>, dyn Cloneable, G_BACKEND | G_STACK;
    Tr16_FixedA:   Tr16,   FixedB,          dyn Cloneable, G_ALIGN;
    Pl16_StackA:   Pl16,   Stack<48>,       dyn None,      G_ALIGN;
    Tr0_Stack:    Tr0,    Stack<8>,       dyn Cloneable, G_BACKEND | G_STACK;
}

#!/usr/bin/env python3
"""Regenerates MANIFEST.json from the table below (keeps it schema-valid at all times)."""
import json, subprocess

BUILT = {
 "C01": ("exploration", "model-based PBT: bounded-exhaustive one-step enumeration + proptest histories vs std Vec model",
         "Every (state<=bound, operation instance) is executed on the real vector and on a Vec model and the full post-state compared; beyond the bound seeded proptest histories over three vectors. Sound for violations it reports (replayable), complete only inside the bound.", "§4 C01"),
 "C02": ("exploration", "model-based PBT: exhaustive ranges x RangeBounds forms x next/next_back strings x replacement kinds + proptest histories vs Vec::drain/splice",
         "All ranges (valid, invalid, overflowing) in all nine RangeBounds forms, all consumption strings and replacement kinds from every small state, differential against Vec::drain/Vec::splice; random histories on larger vectors.", "§4 C02"),
 "C03": ("exploration", "stateful PBT with identity registry: ownership invariants after every step of generated histories",
         "Every element instance carries an id tracked by a registry (alive, cloned, dropped counters); after every generated step all visible ids are alive and unique and live-set equals reachable-set; at the end nothing is alive and nothing was dropped twice.", "§4 C03"),
}
NOT_YET = {}
ALL = ["C%02d" % i for i in range(1, 20)]

def main():
    checks = []
    for pid in ALL:
        if pid not in BUILT:
            continue
        level, technique, text, ref = BUILT[pid]
        checks.append({
            "property_id": pid,
            "quick_cmd": f"./check {pid} --tier quick",
            "thorough_cmd": f"./check {pid} --tier thorough",
            "evidence_file": f"/verif/evidence/{pid}.json",
            "replay_cmd_template": f"./check {pid} --replay {{path}}",
            "engine": "anyvec_pbt",
            "level_claimed": {"category": level, "text": text, "design_ref": ref},
            "level_note": "Trusted base: rustc 1.95 codegen for the two build profiles (rel/chk), std::vec::Vec as reference model, the harness's element registry, instrumented allocator and guard-zone backends. Nothing is proved; absence of violations holds only for the enumerated bound and the sampled histories.",
            "technique": technique,
        })
    na = [{"property_id": p, "reason": NOT_YET.get(p, "check not built yet in this revision (work in progress; see DESIGN.md section 4 for the planned generated check)")} for p in ALL if p not in BUILT]
    m = {
        "version": 1,
        "setup_cmd": "./check --setup",
        "hooks": {
            "guard": "none",
            "enable": "no hooks: every observation goes through the public API, user-defined backends, the harness binary's global allocator, or rustc diagnostics",
            "baseline_off_cmd": "cd /repo && cargo test --workspace --no-fail-fast --offline",
            "source_commits": [],
            "add_only": True,
        },
        "engines": [
            {"name": "anyvec_pbt", "path": "/verif/harness", "serves_properties": [p for p in ALL if p in BUILT and p not in ("C15","C16","C19")],
             "kind_free_text": "Rust harness (path dependency on /repo): choice-sequence case shapes run by a bounded-exhaustive odometer and by proptest, interpreter with Vec reference model, identity registry, instrumented global allocator, guard-zone backends; built in two profiles (rel, chk)"},
        ],
        "checks": checks,
        "notes": "All checks are driven by ./check (python3): it rebuilds the harness from /repo's working tree (cargo fingerprints), runs the property under both build profiles as child processes (crash containment via breadcrumbs), filters known findings (known_findings.json) and writes evidence/<ID>.json. Exit 2 = inconclusive (build failure/timeout), never a violation.",
        "not_applicable": na,
    }
    json.dump(m, open("/verif/MANIFEST.json", "w"), indent=1)

main()

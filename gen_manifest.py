#!/usr/bin/env python3
"""Regenerates MANIFEST.json from the table below (keeps it schema-valid at all times)."""
import json, subprocess

TEXT = {
 "C01": ("exploration", "model-based PBT: bounded-exhaustive one-step enumeration + proptest histories vs std Vec model",
         "Every (state<=bound, operation instance) is executed on the real vector and on a Vec model and the full post-state compared; beyond the bound seeded proptest histories over three vectors. Sound for violations it reports (replayable), complete only inside the bound.", "§4 C01"),
 "C02": ("exploration", "model-based PBT: exhaustive ranges x RangeBounds forms x next/next_back strings x replacement kinds + proptest histories vs Vec::drain/splice",
         "All ranges (valid, invalid, overflowing) in all nine RangeBounds forms, all consumption strings and replacement kinds from every small state, differential against Vec::drain/Vec::splice; random histories on larger vectors.", "§4 C02"),
 "C03": ("exploration", "stateful PBT with identity registry: ownership invariants after every step of generated histories",
         "Every element instance carries an id tracked by a registry (alive, cloned, dropped counters); after every generated step all visible ids are alive and unique and live-set equals reachable-set; at the end nothing is alive and nothing was dropped twice.", "§4 C03"),
 "C04": ("exploration", "generated type-pair matrix: every checked entry point x offered/requested type pair, oracle = panic/None iff types differ, registry for the rejected value",
         "All ordered pairs from a set of distinct element types incl. same-layout pairs are offered to / requested from every checked entry point in every small state; mismatch must panic or yield None with the vector unchanged, match must succeed.", "§4 C04"),
 "C05": ("exploration", "PBT on instrumented backends: guard zones, poison, relocate-on-resize, quarantine; instrumented global allocator for Heap",
         "The C01/C02/C08/C10 case space is re-run with memory monitors as the deciding oracle: out-of-bounds writes hit guard zones, writes through stale pointers hit quarantined blocks, reads of uninitialised/moved-out slots surface as poison/dead ids, backend lifecycle hooks check build/resize/release.", "§4 C05"),
 "C06": ("fault_enumeration", "fault injection enumeration: every k-th user-code invocation (Drop/Clone/iterator next) panics; lying ExactSizeIterator; validity predicate + usability script",
         "For every (state, operation instance) the fault-free run counts user-code invocations N, then N re-runs inject a panic at invocation k; afterwards the validity predicate (alive, intact, unique, guard zones) and a usability script must pass. Replacement iterators misreporting len by -2..=+2 are enumerated likewise.", "§4 C06"),
 "C07": ("exploration", "PBT with mem::forget at every stage of removal handles and range iterators; validity predicate + prefix oracle",
         "Every removal handle / drain / splice iterator is forgotten immediately or after every next/next_back prefix, or a yielded item is forgotten; prefix before the index must be unchanged, the vector valid, nothing duplicated or dropped twice; history continues afterwards.", "§4 C07"),
 "C08": ("exploration", "model-based PBT: clone/clone_empty/clone_empty_in from every state and backend pair, registry clone counters, follow-up operation independence",
         "Every state x every Cloneable constraint set x every backend flavour (fixed-capacity ones also full) is cloned; oracle compares type/layout/len/payloads, per-element clone counters (exactly once), storage separation and independence under one follow-up operation on either vector.", "§4 C08"),
 "C09": ("exploration", "PBT over lazy-clone chains: source kind x depth x copies x consumption kinds with registry clone/drop counters",
         "All cloneable source kinds, chain depths 1..3, 0..2 LazyClone copies and all consumption kinds are enumerated; the registry proves no clone happens on creation/copy/drop and exactly one clone of the original per consumption.", "§4 C09"),
 "C10": ("exploration", "PBT of capacity calls: exhaustive (len,capacity) x argument grid incl. overflow boundaries, no-op detection via allocator/backend event counters, amortisation runs",
         "Every (len, capacity) state x reserve/reserve_exact/shrink_* with small and boundary arguments; oracle: inequalities of the statement, no-op (same capacity, same pointer, zero allocator events) when sufficient, panic when len+n overflows, exact result on Heap, logarithmic reallocation count over 2^k pushes.", "§4 C10"),
 "C11": ("exploration", "generated SIZE/N grids for Stack/StackN: capacity formula, construction panic, differential vs Heap at the capacity boundary, zero allocator events",
         "Macro-generated grids of Stack<SIZE>/StackN<N,SIZE> around multiples of the element size; capacity must equal the formula, operations ending at cap-1/cap/cap+1 must equal the Heap run or panic leaving contents unchanged, the allocator window must stay empty.", "§4 C11"),
 "C12": ("exploration", "generated placements: vector moved to every admissible offset in an aligned arena, address arithmetic oracle for byte/slice/spare views",
         "Every (len, cap) state x layout x backend x placement offset; storage pointer alignment checked by integer arithmetic, byte/typed/spare views compared with base + len*size arithmetic, spare writes + set_len become the new tail.", "§4 C12"),
 "C13": ("exploration", "PBT over handle kinds: every index, every writer view x reader view pair, every ordered swap pairing of typed/untyped handles",
         "get/at/get_mut/at_mut at all indices 0..=len+1, writes through 8 mutable views read back through 8 views, AnyValueMut::swap for all 25 ordered handle-kind pairs; oracle: model payloads, typeid/size/bytes/address of each handle, only the two values exchanged.", "§4 C13"),
 "C14": ("exploration", "exhaustive next/next_back strings with calls past exhaustion for every iterator kind, size_hint/len oracle, clone independence",
         "All 2^n choice strings (plus calls after exhaustion) for iter, iter_mut, drain, splice and typed counterparts from every state and sub-range; before every call size_hint/len must equal the model's remaining count, items must come in model order, both ends stay None after exhaustion; clones of shared iterators advance independently.", "§4 C14"),
 "C15": ("exploration", "generated probe programs compiled by rustc: auto-trait tables and constructor/method availability vs a rule-table oracle",
         "Programs are generated over constraint set x backend x element class x derived type x {Send,Sync}; rustc's verdict (compiles / trait not satisfied) is compared with a rule table derived from the statement; every rejection has a control program.", "§4 C15"),
 "C16": ("exploration", "generated probe programs (handle producer x conflict class, each with its control) judged by rustc's borrow checker",
         "A two-level grammar generates programs that use a vector in conflict with a live handle; each must be rejected while its conflict-free control compiles; accepted-but-must-reject verdicts are confirmed solo.", "§4 C16"),
 "C17": ("exploration", "model-based PBT: raw-parts round trips (1..3, with field-wise clone) interleaved with operations, registry + allocator event oracle",
         "Every state x constraint set on Heap and Empty: into_raw_parts / RawParts::clone / from_raw_parts repeated and followed by every C01 operation; no registry or allocator event may happen across the round trip and all reported fields must match the vector.", "§4 C17"),
 "C18": ("exploration", "PBT under an instrumented global allocator: layout validity/consistency log, per-vector allocation accounting, leak check, overflow-boundary requests",
         "C01/C02/C10 cases and histories on heap vectors; the allocator wrapper validates every layout, matches realloc/dealloc layouts with the allocation's, checks one sufficiently large/aligned block per vector and none for zero-size storage, and an empty table at the end; boundary capacity requests must panic rather than reach the allocator.", "§4 C18"),
 "C19": ("exploration", "feature-set differential: no-default-features build probes (no_std staticlib link test, unresolved Heap) + same generated histories on stack backends in both feature sets",
         "A no_std staticlib probe must build without a global allocator iff alloc is absent from the crate graph; compile probes show the heap backend is gone; the C01/C02/C11 generated histories on stack backends must satisfy the model and produce identical digests in both feature sets.", "§4 C19"),
}
BUILT = set(open("/verif/.built").read().split())
NOT_YET = {}
ALL = ["C%02d" % i for i in range(1, 20)]

def main():
    checks = []
    for pid in ALL:
        if pid not in BUILT:
            continue
        level, technique, text, ref = TEXT[pid]
        checks.append({
            "property_id": pid,
            "quick_cmd": f"./check {pid} --tier quick",
            "thorough_cmd": f"./check {pid} --tier thorough",
            "evidence_file": f"/verif/evidence/{pid}.json",
            "replay_cmd_template": f"./check {pid} --replay {{path}}",
            "engine": "probe_programs" if pid in ("C15", "C16", "C19") else "anyvec_pbt",
            "level_claimed": {"category": level, "text": text, "design_ref": ref},
            "level_note": "Trusted base: rustc 1.95 codegen for the two build profiles (rel/chk), std::vec::Vec as reference model, the harness's element registry, instrumented allocator and guard-zone backends. Nothing is proved; absence of violations holds only for the enumerated bound and the sampled histories.",
            "technique": technique,
        })
    na = [{"property_id": p, "reason": NOT_YET.get(p, "check not built yet in this revision (work in progress; see DESIGN.md section 4 for the planned generated check)")} for p in ALL if p not in BUILT]
    m = {
        "version": 1,
        "setup_cmd": "./check --setup",
        "hooks": {
            "guard": "none",
            "enable": "no hooks: every observation goes through the public API, user-defined backends, the harness binary's global allocator, or rustc diagnostics",
            "baseline_off_cmd": "cd /repo && cargo test --workspace --no-fail-fast --offline",
            "source_commits": [],
            "add_only": True,
        },
        "engines": [
            {"name": "anyvec_pbt", "path": "/verif/harness", "serves_properties": [p for p in ALL if p in BUILT and p not in ("C15","C16","C19")],
             "kind_free_text": "Rust harness (path dependency on /repo): choice-sequence case shapes run by a bounded-exhaustive odometer and by proptest, interpreter with Vec reference model, identity registry, instrumented global allocator, guard-zone backends; built in two profiles (rel, chk)"},
            {"name": "probe_programs", "path": "/verif/probes", "serves_properties": [p for p in ("C15", "C16", "C19") if p in BUILT],
             "kind_free_text": "python generator of probe programs (grammar x rule-table oracle) judged by rustc against the library built from /repo's working tree; controls for every rejecting probe; C19 additionally runs the harness in both feature sets and compares digests"},
        ],
        "checks": checks,
        "notes": "All checks are driven by ./check (python3): it rebuilds the harness from /repo's working tree (cargo fingerprints), runs the property under both build profiles as child processes (crash containment via breadcrumbs), filters known findings (known_findings.json) and writes evidence/<ID>.json. Exit 2 = inconclusive (build failure/timeout), never a violation.",
        "not_applicable": na,
    }
    json.dump(m, open("/verif/MANIFEST.json", "w"), indent=1)

main()

//! Coverage-guided driver over the same interpreter: bytes -> 16-bit words -> choice sequence
//! -> history of operations on three vectors, oracle inside the target (DESIGN.md §2.6 driver 3).
//!
//! The property (and thereby operation set and deciding monitors) comes from VERIF_FUZZ_PROP;
//! the first input byte selects one of the configurations instantiated here.
#![no_main]
#![allow(non_camel_case_types)]

use std::sync::OnceLock;

use any_vec::traits::*;
use anyvec_pbt::backend::Multi;
use anyvec_pbt::cases::{run_case, Shape};
use anyvec_pbt::choices::Ch;
use anyvec_pbt::elem::*;
use anyvec_pbt::props::{plan_for, Tier};
use anyvec_pbt::world::{Cfg, Spec};
use libfuzzer_sys::fuzz_target;

macro_rules! cfgs {
    ($( $id:ident : $t:ty, $m:ty, $tr:ty ;)*) => {
        $( pub struct $id; impl Cfg for $id { type T = $t; type M = $m; type Tr = $tr; const NAME: &'static str = stringify!($id); } )*
        const RUNNERS: &[(&str, fn(&Spec, Shape, &mut Ch, &mut String) -> anyvec_pbt::cases::CaseOut)] = &[ $( (stringify!($id), run_case::<$id>), )* ];
    };
}
cfgs! {
    Tr8_Multi: Tr8, Multi, dyn Cloneable;
    Tr3_Multi: Tr3, Multi, dyn Cloneable;
    Tr24_Multi: Tr24, Multi, dyn Cloneable;
    Pl1_Multi: Pl1, Multi, dyn Cloneable;
    Tr160_Multi: Tr160, Multi, dyn Cloneable;
    Tr0_Multi: Tr0, Multi, dyn Cloneable;
    Tr8_Stack: Tr8, any_vec::mem::Stack<64>, dyn Cloneable;
    Tr8_Heap_SS: Tr8, any_vec::mem::Heap, dyn Send + Sync;
}

static SPEC: OnceLock<(String, Spec)> = OnceLock::new();

fn spec() -> &'static (String, Spec) {
    SPEC.get_or_init(|| {
        std::panic::set_hook(Box::new(|info| {
            let _s = anyvec_pbt::alloc::suspend();
            if !anyvec_pbt::elem::reg(|r| r.in_lib) {
                eprintln!("[harness panic] {}", info);
            }
        }));
        let prop = std::env::var("VERIF_FUZZ_PROP").unwrap_or_else(|_| "C01".into());
        let pp = plan_for(&prop, Tier::Thorough).expect("unknown property");
        let plan = pp.plans.into_iter().find(|p| p.shape == Shape::History).expect("property has no history plan");
        (prop, plan.spec)
    })
}

fuzz_target!(|data: &[u8]| {
    if data.len() < 3 {
        return;
    }
    let (prop, spec) = spec();
    let (name, run) = RUNNERS[data[0] as usize % RUNNERS.len()];
    let words: Vec<u16> = data[1..].chunks_exact(2).map(|c| u16::from_le_bytes([c[0], c[1]])).collect();
    let mut ch = Ch::words(words.clone());
    let mut trace = String::new();
    let out = run(spec, Shape::History, &mut ch, &mut trace);
    if let Some(v) = out.violation {
        let w: Vec<String> = words.iter().map(|x| x.to_string()).collect();
        eprintln!("VERIF-VIOLATION property={} cfg={} detector={}\n  {}\n  trace: {}\nREPLAY-BEGIN\nprop {}\ncfg {}\nshape history\nwords {}\nREPLAY-END", prop, name, v.sig, v.msg, trace, prop, name, w.join(" "));
        std::process::abort();
    }
});

#!/bin/bash
# round 2: /tmp/seed2_PROP/SEED/{a,b} -> seeds PROPc / PROPd
for p in "$@"; do for v in a b; do
  id=${p}$( [ $v = a ] && echo c || echo d )
  if [ -f /tmp/seed2_$p/SEED/$v/patch.diff ]; then python3 /verif/seedeval.py /tmp/seed2_$p /tmp/seed2_$p/SEED/$v $id $p 2>&1 | tail -5; fi
done; done

#!/bin/bash
# round 4: /tmp/seed4_PROP/SEED/{a,b} -> seeds PROPg / PROPh ; optional extra props per seed
declare -A EXTRA=( [C13g]="C13,C14" [C13h]="C13,C14" [C09h]="C09,C08" [C11h]="C11,C05" )
for p in "$@"; do for v in a b; do
  id=${p}$( [ $v = a ] && echo g || echo h )
  props=${EXTRA[$id]:-$p}
  if [ -f /tmp/seed4_$p/SEED/$v/patch.diff ]; then python3 /verif/seedeval.py /tmp/seed4_$p /tmp/seed4_$p/SEED/$v $id $props 2>&1 | tail -5; fi
done; done

#!/usr/bin/env python3
"""Evaluate one seeded change (mutant) against the checks.

  seedeval.py <scratch_worktree> <variant_dir> <seed_id> <PROP[,PROP...]> [--tier quick]

1. In the scratch worktree (never /repo): the demonstration passes on the unmodified sources,
   the patch applies, the existing suite passes with it, the demonstration fails with it.
2. Applies the patch to /repo, runs ./check for each property, reverts /repo.
3. Stores /verif/seeded/<seed_id>/{patch.diff, demo.rs, meta.json}.
"""
import json, os, re, shutil, subprocess, sys, time

ENV = dict(os.environ, CARGO_NET_OFFLINE="true", CARGO_TERM_COLOR="never")
# extra cargo flags for the demonstration only (e.g. --no-default-features for C19 seeds)
DEMO_FLAGS = os.environ.get("SEED_DEMO_FLAGS", "").split()


def sh(cmd, cwd=None, timeout=3600):
    p = subprocess.run(cmd, cwd=cwd, env=ENV, stdout=subprocess.PIPE, stderr=subprocess.STDOUT, text=True, timeout=timeout)
    return p.returncode, p.stdout


def test_targets(out):
    """map test target -> (passed, failed)"""
    res = {}
    cur = None
    for line in out.splitlines():
        m = re.match(r"\s+Running (\S+)", line)
        if m:
            cur = m.group(1)
        m = re.match(r"\s+Doc-tests (\S+)", line)
        if m:
            cur = "doctests"
        m = re.match(r"test result: (\w+)\. (\d+) passed; (\d+) failed", line)
        if m and cur:
            res[cur] = (int(m.group(2)), int(m.group(3)))
            cur = None
    return res


def main():
    wt, var, seed_id, props = sys.argv[1:5]
    tier = "quick"
    if "--tier" in sys.argv:
        tier = sys.argv[sys.argv.index("--tier") + 1]
    props = props.split(",")
    patch = os.path.join(var, "patch.diff")
    demo = os.path.join(var, "demo.rs")
    meta = {"seed_id": seed_id, "properties_targeted": props, "ran": []}
    # clean scratch worktree
    sh(["git", "checkout", "--", "src"], cwd=wt)
    sh(["git", "clean", "-fq", "tests"], cwd=wt)  # demo copies left behind are not part of the suite
    for f in os.listdir(os.path.join(wt, "tests")):
        if f.startswith("seeded_demo"):
            os.remove(os.path.join(wt, "tests", f))
    shutil.copy(demo, os.path.join(wt, "tests", "seeded_demo_tmp.rs"))
    rc, out = sh(["cargo", "test", "--offline", "--test", "seeded_demo_tmp"] + DEMO_FLAGS, cwd=wt)
    meta["demo_passes_without_patch"] = rc == 0
    meta["ran"].append("cargo test --offline --test seeded_demo_tmp (unmodified sources): rc=%d" % rc)
    rc, out = sh(["git", "apply", os.path.abspath(patch)], cwd=wt)
    meta["patch_applies"] = rc == 0
    if rc != 0:
        print("PATCH DOES NOT APPLY", out)
        sh(["git", "checkout", "--", "src"], cwd=wt)
        print(json.dumps(meta, indent=1))
        return 1
    rc, out = sh(["cargo", "test", "--offline", "--no-fail-fast"], cwd=wt)
    tg = test_targets(out)
    compiled = "error: could not compile" not in out and "error[" not in out
    others_ok = compiled and all(f == 0 for t, (p, f) in tg.items() if "seeded_demo_tmp" not in t)
    demo_fails = any(f > 0 for t, (p, f) in tg.items() if "seeded_demo_tmp" in t)
    if DEMO_FLAGS:
        rc2, out2 = sh(["cargo", "test", "--offline", "--test", "seeded_demo_tmp"] + DEMO_FLAGS, cwd=wt)
        demo_fails = rc2 != 0 and "test result: FAILED" in out2
        meta["ran"].append("cargo test --offline --test seeded_demo_tmp %s (patched): rc=%d" % (" ".join(DEMO_FLAGS), rc2))
    n_pass = sum(p for t, (p, f) in tg.items() if "seeded_demo_tmp" not in t)
    meta["compiles_with_patch"] = compiled
    meta["existing_suite_passes_with_patch"] = others_ok
    meta["existing_suite_passed_count"] = n_pass
    meta["demo_fails_with_patch"] = demo_fails
    meta["ran"].append("cargo test --offline --no-fail-fast (patched): suite ok=%s (%d passed), demo fails=%s" % (others_ok, n_pass, demo_fails))
    sh(["git", "checkout", "--", "src"], cwd=wt)
    os.remove(os.path.join(wt, "tests", "seeded_demo_tmp.rs"))
    valid = meta["demo_passes_without_patch"] and others_ok and demo_fails
    meta["valid_seed"] = valid
    # run the checks against /repo with the patch applied
    st, _ = sh(["git", "status", "--porcelain"], cwd="/repo")
    rc, out = sh(["git", "apply", os.path.abspath(patch)], cwd="/repo")
    if rc != 0:
        print("patch does not apply to /repo:", out)
        print(json.dumps(meta, indent=1))
        return 1
    meta["checks"] = {}
    try:
        for p in props:
            t0 = time.time()
            rc, out = sh(["/verif/check", p, "--tier", tier], cwd="/verif", timeout=7200)
            viol = [l for l in out.splitlines() if l.startswith("VIOLATION") or l.startswith("  [")]
            meta["checks"][p] = {"rc": rc, "detected": rc == 1, "wall_s": round(time.time() - t0, 1), "lines": viol[:6]}
            meta["ran"].append("./check %s --tier %s (patch applied to /repo): rc=%d" % (p, tier, rc))
    finally:
        sh(["git", "checkout", "--", "."], cwd="/repo")
    d = os.path.join("/verif/seeded", seed_id)
    os.makedirs(d, exist_ok=True)
    shutil.copy(patch, os.path.join(d, "patch.diff"))
    shutil.copy(demo, os.path.join(d, "demo.rs"))
    # keep the first replay file of the detection as a regression case
    for p, c in meta["checks"].items():
        for l in c.get("lines", []):
            m = re.match(r"VIOLATION property=\S+ replay=(\S+)", l)
            if m and os.path.exists(m.group(1)):
                ext = ".replay" if m.group(1).endswith(".replay") else os.path.splitext(m.group(1))[1]
                if os.path.abspath(m.group(1)) != os.path.abspath(os.path.join(d, "detected" + ext)):
                    shutil.copy(m.group(1), os.path.join(d, "detected" + ext))
                meta["saved_replay"] = "detected" + ext
                break
        if "saved_replay" in meta:
            break
    notes = os.path.join(var, "notes.md")
    if os.path.exists(notes):
        meta["needs_to_manifest"] = open(notes).read()[:3000]
    json.dump(meta, open(os.path.join(d, "meta.json"), "w"), indent=1)
    print(seed_id, "valid=%s" % valid, {p: c["detected"] for p, c in meta["checks"].items()})
    for p, c in meta["checks"].items():
        for l in c["lines"][:3]:
            print("   ", l[:300])
    return 0


if __name__ == "__main__":
    sys.exit(main())

#!/bin/bash
# usage: seedbatch.sh PROP...   evaluates /tmp/seed_PROP/SEED/{a,b}
for p in "$@"; do for v in a b; do
  if [ -f /tmp/seed_$p/SEED/$v/patch.diff ]; then python3 /verif/seedeval.py /tmp/seed_$p /tmp/seed_$p/SEED/$v ${p}$v $p 2>&1 | tail -6; fi
done; done

#!/usr/bin/env python3
"""Re-evaluates every stored seeded change (seeded/<id>/patch.diff) against the current checks.
Validation of the seed itself (suite passes, demo fails) was done when it was stored; this only
re-runs the checks of the targeted properties with the patch applied to /repo (reverted after)."""
import json, os, re, shutil, subprocess, sys, time

# A second lane may run in a scratch copy (SEEDALL_ROOT = copy of /verif whose harness points at
# SEEDALL_REPO, a scratch worktree of /repo); the stored seeds and their results stay in /verif/seeded.
ROOT = os.environ.get("SEEDALL_ROOT", "/verif")
REPO = os.environ.get("SEEDALL_REPO", "/repo")
SEEDS = "/verif/seeded"
ENV = dict(os.environ, CARGO_NET_OFFLINE="true")


def sh(cmd, cwd=None, timeout=7200):
    p = subprocess.run(cmd, cwd=cwd, env=ENV, stdout=subprocess.PIPE, stderr=subprocess.STDOUT, text=True, timeout=timeout)
    return p.returncode, p.stdout


def main():
    only = [a for a in sys.argv[1:] if not a.startswith("--")]
    refresh = "--refresh" in sys.argv  # forget the saved failing cases and store new ones
    ids = sorted(os.listdir(SEEDS))
    summary = []
    for sid in ids:
        if only and sid not in only and sid[:3] not in only:
            continue
        d = os.path.join(SEEDS, sid)
        meta = json.load(open(os.path.join(d, "meta.json")))
        if refresh:
            for f in os.listdir(d):
                if f.startswith("detected."):
                    os.remove(os.path.join(d, f))
            meta.pop("saved_replay", None)
        props = meta.get("properties_targeted") or [sid[:3]]
        # a seed stored for one property may in the end be the business of another one as well
        rc, out = sh(["git", "apply", os.path.join(d, "patch.diff")], cwd=REPO)
        if rc != 0:
            print(sid, "PATCH DOES NOT APPLY", out[:200])
            summary.append((sid, "no-apply"))
            continue
        res = {}
        try:
            for p in props:
                t0 = time.time()
                rc, out = sh([os.path.join(ROOT, "check"), p, "--tier", "quick"], cwd=ROOT)
                lines = [l for l in out.splitlines() if l.startswith("VIOLATION") or l.startswith("  [")]
                res[p] = {"rc": rc, "detected": rc == 1, "wall_s": round(time.time() - t0, 1), "lines": lines[:6]}
                if rc == 1 and "saved_replay" not in meta:
                    for l in lines:
                        m = re.match(r"VIOLATION property=\S+ replay=(\S+)", l)
                        if m and os.path.exists(m.group(1)) and os.path.dirname(m.group(1)) != d:
                            ext = ".replay" if m.group(1).endswith(".replay") else os.path.splitext(m.group(1))[1]
                            shutil.copy(m.group(1), os.path.join(d, "detected" + ext))
                            meta["saved_replay"] = "detected" + ext
                            break
        finally:
            sh(["git", "checkout", "--", "."], cwd=REPO)
        meta["checks"] = res
        meta.setdefault("ran", []).append("re-evaluated with the final checks: " + ", ".join("./check %s -> rc=%d" % (p, r["rc"]) for p, r in res.items()))
        json.dump(meta, open(os.path.join(d, "meta.json"), "w"), indent=1)
        ok = any(r["detected"] for r in res.values())
        summary.append((sid, {p: r["rc"] for p, r in res.items()}))
        print(sid, "DETECTED" if ok else "MISSED", {p: r["rc"] for p, r in res.items()}, flush=True)
        # replays produced under the mutant are of no further use
        for f in os.listdir(os.path.join(ROOT, "replays")):
            fp = os.path.join(ROOT, "replays", f)
            if os.path.isfile(fp):
                os.remove(fp)
    missed = [s for s, r in summary if not (isinstance(r, dict) and 1 in r.values())]
    print("TOTAL", len(summary), "missed:", missed)


if __name__ == "__main__":
    main()

#!/bin/bash
# dev helper: build rel and run props
cd /verif/harness && cargo build -p pbt --profile ${PROFILE:-rel} --target-dir /verif/target/${PROFILE:-rel} 2>&1 | grep -E "^error" -A 20
for p in "$@"; do /verif/target/${PROFILE:-rel}/${PROFILE:-rel}/pbt $p --tier ${TIER:-quick} --profile ${PROFILE:-rel} --out /tmp/$p.json --crumbs /verif/evidence/.crumbs --replays /tmp/replays; done
python3 - "$@" <<'PY'
import json,sys
for p in sys.argv[1:]:
    d=json.load(open('/tmp/%s.json'%p))
    print(p,{k:v for k,v in d.items() if k in('evaluations','distinct_nontrivial','desyncs','first_desync','wall_s','classes')})
    seen=set()
    for v in d['violations']:
        if v['sig'] in seen: continue
        seen.add(v['sig'])
        print('  ',v['cfg'],v['sig'],'|',v['msg'][:260]); print('      ',v['trace'][:400])
PY

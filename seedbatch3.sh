#!/bin/bash
# round 3: /tmp/seed3_PROP/SEED/{a,b} -> seeds PROPe / PROPf ; optional extra props per seed via EXTRA_<id>
declare -A EXTRA=( [C01e]="C01,C14" [C02f]="C02,C03" [C05f]="C05,C14" )
for p in "$@"; do for v in a b; do
  id=${p}$( [ $v = a ] && echo e || echo f )
  props=${EXTRA[$id]:-$p}
  if [ -f /tmp/seed3_$p/SEED/$v/patch.diff ]; then python3 /verif/seedeval.py /tmp/seed3_$p /tmp/seed3_$p/SEED/$v $id $props 2>&1 | tail -5; fi
done; done

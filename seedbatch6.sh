#!/bin/bash
# round 6: /tmp/seed6_PROP/SEED/{a,b} -> seeds PROPk / PROPl ; optional extra props per seed
declare -A EXTRA=( [C09k]="C09,C03" [C09l]="C09,C03" [C02k]="C02,C09" [C02l]="C02,C03" [C08l]="C08,C09" )
for p in "$@"; do for v in a b; do
  id=${p}$( [ $v = a ] && echo k || echo l )
  props=${EXTRA[$id]:-$p}
  if [ -f /tmp/seed6_$p/SEED/$v/patch.diff ]; then python3 /verif/seedeval.py /tmp/seed6_$p /tmp/seed6_$p/SEED/$v $id $props 2>&1 | grep -v "^    " | tail -3; fi
done; done

#!/bin/bash
# round 5: /tmp/seed5_PROP/SEED/{a,b} -> seeds PROPi / PROPj ; optional extra props per seed
declare -A EXTRA=( [C01j]="C01,C14" [C05j]="C05,C14" [C03i]="C03,C02" )
for p in "$@"; do for v in a b; do
  id=${p}$( [ $v = a ] && echo i || echo j )
  props=${EXTRA[$id]:-$p}
  if [ -f /tmp/seed5_$p/SEED/$v/patch.diff ]; then python3 /verif/seedeval.py /tmp/seed5_$p /tmp/seed5_$p/SEED/$v $id $props 2>&1 | grep -v "^    " | tail -3; fi
done; done

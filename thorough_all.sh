#!/bin/bash
# Runs the thorough tier of every property once (unchanged tree): timing + silence.
cd "$(dirname "$0")"
./check --setup || exit 2
for p in ${@:-C04 C11 C12 C13 C15 C16 C17 C19 C10 C01 C14 C07 C09 C08 C18 C03 C05 C02 C06}; do
  s=$(date +%s); out=$(VERIF_SEED=${VERIF_SEED:-7} ./check $p --tier thorough 2>/dev/null); rc=$?
  echo "$p thorough rc=$rc $(( $(date +%s) - s ))s :: $(echo "$out" | tail -1 | cut -c1-140)"
  if [ $rc -ne 0 ]; then echo "$out" | grep -E "^VIOLATION|^  \[" | head -6 | cut -c1-300; fi
done

"""C16: uses of a vector conflicting with a live handle are rejected at compile time.

Two-level program grammar (DESIGN.md §4 C16). Every rejecting probe has a control (the same
program without the conflicting line) that must compile.
"""
from common import Probe

PRELUDE = r'''
#![allow(unused, unused_mut, unused_variables, dead_code, unused_must_use)]
use any_vec::AnyVec;
use any_vec::any_value::*;
use any_vec::traits::*;
use any_vec::mem::*;

type VHeapC = AnyVec<dyn Cloneable>;
type VHeapN = AnyVec;
type VStackC = AnyVec<dyn Cloneable, Stack<64>>;
type VStackN = AnyVec<dyn None, Stack<64>>;

fn w(s: &str) -> AnyValueWrapper<String> { AnyValueWrapper::new(String::from(s)) }
fn mk_heap_c() -> VHeapC { let mut v: VHeapC = AnyVec::new::<String>(); v.push(w("a")); v.push(w("b")); v }
fn mk_heap_n() -> VHeapN { let mut v: VHeapN = AnyVec::new::<String>(); v.push(w("a")); v.push(w("b")); v }
fn mk_stack_c() -> VStackC { let mut v: VStackC = AnyVec::new::<String>(); v.push(w("a")); v.push(w("b")); v }
fn mk_stack_n() -> VStackN { let mut v: VStackN = AnyVec::new::<String>(); v.push(w("a")); v.push(w("b")); v }
fn use_it<T>(_: &T) {}
fn use_mut<T: ?Sized>(_: &mut T) {}
fn use_ref<T: ?Sized>(_: &T) {}
'''

# (name, kind, producer statements yielding `h`, needs Cloneable)
PRODUCERS = [
    # shared handles
    ("at", "shared", ["let h = v.at(0);"], False),
    ("get", "shared", ["let h = v.get(0).unwrap();"], False),
    ("iter", "shared", ["let h = v.iter();"], False),
    ("ref_into_iter", "shared", ["let h = (&v).into_iter();"], False),
    ("downcast_ref", "shared", ["let h = v.downcast_ref::<String>().unwrap();"], False),
    ("as_bytes", "shared", ["let h = v.as_bytes();"], False),
    ("element_downcast_ref", "shared", ["let h = v.at(0).downcast_ref::<String>().unwrap();"], False),
    ("lazy_clone_of_element_ref", "shared", ["let e = v.at(0);", "let h = e.lazy_clone();"], True),
    ("get_unchecked", "shared", ["let h = unsafe { v.get_unchecked(0) };"], False),
    ("downcast_ref_unchecked", "shared", ["let h = unsafe { v.downcast_ref_unchecked::<String>() };"], False),
    ("element_ref_clone", "shared", ["let h = v.at(0).clone();"], False),
    ("iter_clone", "shared", ["let h = v.iter().clone();"], False),
    ("iter_item", "shared", ["let h = v.iter().next().unwrap();"], False),
    ("iter_item_back", "shared", ["let h = v.iter().next_back().unwrap();"], False),
    ("element_downcast_ref_unchecked", "shared", ["let h = unsafe { v.at(0).downcast_ref_unchecked::<String>() };"], False),
    ("typed_get_unchecked", "shared", ["let h = unsafe { v.downcast_ref::<String>().unwrap().get_unchecked(0) };"], False),
    ("typed_as_ptr_slice", "shared", ["let h = v.downcast_ref::<String>().unwrap().as_slice().first().unwrap();"], False),
    ("typed_at", "shared", ["let h = v.downcast_ref::<String>().unwrap().at(0);"], False),
    ("typed_get", "shared", ["let h = v.downcast_ref::<String>().unwrap().get(0).unwrap();"], False),
    ("typed_iter", "shared", ["let h = v.downcast_ref::<String>().unwrap().iter();"], False),
    ("typed_as_slice", "shared", ["let h = v.downcast_ref::<String>().unwrap().as_slice();"], False),
    ("typed_ref_into_iter", "shared", ["let h = v.downcast_ref::<String>().unwrap().into_iter();"], False),
    # exclusive handles
    ("at_mut", "exclusive", ["let mut h = v.at_mut(0);"], False),
    ("get_mut", "exclusive", ["let mut h = v.get_mut(0).unwrap();"], False),
    ("iter_mut", "exclusive", ["let mut h = v.iter_mut();"], False),
    ("mut_into_iter", "exclusive", ["let mut h = (&mut v).into_iter();"], False),
    ("downcast_mut", "exclusive", ["let mut h = v.downcast_mut::<String>().unwrap();"], False),
    ("as_bytes_mut", "exclusive", ["let mut h = v.as_bytes_mut();"], False),
    ("spare_bytes_mut", "exclusive", ["let mut h = v.spare_bytes_mut();"], False),
    ("element_downcast_mut", "exclusive", ["let mut h = v.at_mut(0).downcast_mut::<String>().unwrap();"], False),
    ("get_unchecked_mut", "exclusive", ["let mut h = unsafe { v.get_unchecked_mut(0) };"], False),
    ("downcast_mut_unchecked", "exclusive", ["let mut h = unsafe { v.downcast_mut_unchecked::<String>() };"], False),
    ("iter_mut_item", "exclusive", ["let mut h = v.iter_mut().next().unwrap();"], False),
    ("iter_mut_item_back", "exclusive", ["let mut h = v.iter_mut().next_back().unwrap();"], False),
    ("typed_get_unchecked_mut", "exclusive", ["let mut h = unsafe { v.downcast_mut::<String>().unwrap().get_unchecked_mut(0) };"], False),
    ("drain_item", "exclusive", ["let mut h = v.drain(..).next().unwrap();"], False),
    ("splice_item", "exclusive", ["let mut h = v.splice(.., [w(\"x\")]).next().unwrap();"], False),
    ("pop_downcast_ref", "exclusive", ["let mut p = v.pop().unwrap();", "let h = p.downcast_ref::<String>().unwrap();"], False),
    ("remove_as_bytes", "exclusive", ["let mut p = v.remove(0);", "let h = p.as_bytes();"], False),
    ("typed_at_mut", "exclusive", ["let mut h = v.downcast_mut::<String>().unwrap().at_mut(0);"], False),
    ("typed_get_mut", "exclusive", ["let mut h = v.downcast_mut::<String>().unwrap().get_mut(0).unwrap();"], False),
    ("typed_iter_mut", "exclusive", ["let mut h = v.downcast_mut::<String>().unwrap().iter_mut();"], False),
    ("typed_as_mut_slice", "exclusive", ["let mut h = v.downcast_mut::<String>().unwrap().as_mut_slice();"], False),
    ("typed_spare_capacity_mut", "exclusive", ["let mut h = v.downcast_mut::<String>().unwrap().spare_capacity_mut();"], False),
    ("typed_mut_into_iter", "exclusive", ["let mut h = v.downcast_mut::<String>().unwrap().into_iter();"], False),
    ("typed_drain", "exclusive", ["let mut h = v.downcast_mut::<String>().unwrap().drain(..);"], False),
    ("typed_splice", "exclusive", ["let mut h = v.downcast_mut::<String>().unwrap().splice(.., vec![String::new()]);"], False),
    # owned handles (hold the vector exclusively)
    ("pop", "owned", ["let mut h = v.pop().unwrap();"], False),
    ("remove", "owned", ["let mut h = v.remove(0);"], False),
    ("swap_remove", "owned", ["let mut h = v.swap_remove(0);"], False),
    ("drain", "owned", ["let mut h = v.drain(..);"], False),
    ("splice", "owned", ["let mut h = v.splice(.., [w(\"x\")]);"], False),
    ("lazy_clone_of_remove_handle", "owned", ["let r = v.remove(0);", "let h = r.lazy_clone();"], True),
]

# conflict class -> (statement, verdict for shared handles, verdict for exclusive/owned)
CONFLICTS = [
    ("mutate_source", "v.push(w(\"z\"));", "reject", "reject"),
    ("read_source", "let _n = v.len();", "accept", "reject"),
    ("second_exclusive_handle", "let _h2 = v.at_mut(0);", "reject", "reject"),
    ("move_source", "let _v2 = v;", "reject", "reject"),
    ("drop_source", "drop(v);", "reject", "reject"),
]

VARIANTS = [("heap_c", "mk_heap_c", True), ("heap_n", "mk_heap_n", False), ("stack_c", "mk_stack_c", True), ("stack_n", "mk_stack_n", False)]


def level1():
    out = []
    for vname, mk, cloneable in VARIANTS:
        for pname, kind, prod, needs_c in PRODUCERS:
            if needs_c and not cloneable:
                continue
            base = "L1/%s/%s" % (vname, pname)
            ctl = Probe(base + "/control", ["let mut v = %s();" % mk] + prod + ["use_it(&h);"], "accept", "control")
            out.append(ctl)
            for cname, stmt, ex_shared, ex_excl in CONFLICTS:
                expect = ex_shared if kind == "shared" else ex_excl
                body = ["let mut v = %s();" % mk] + prod + [stmt, "use_it(&h);"]
                out.append(Probe("%s/%s" % (base, cname), body, expect, "%s:%s" % (kind, cname), control_of=ctl.name))
            # escape the source's scope
            body = ["let h;", "{", "    let mut v = %s();" % mk]
            for s in prod[:-1]:
                body.append("    " + s)
            body.append("    " + prod[-1].replace("let mut h =", "h =").replace("let h =", "h ="))
            body += ["}", "use_it(&h);"]
            out.append(Probe(base + "/escape_scope", body, "reject", "%s:escape_scope" % kind, control_of=ctl.name))
            # consume an owned handle twice
            if pname in ("pop", "remove", "swap_remove"):
                body = ["let mut v = %s();" % mk] + prod + ["let a = h.downcast::<String>();", "let b = h.downcast::<String>();"]
                out.append(Probe(base + "/consume_twice", body, "reject", "owned:consume_twice", control_of=ctl.name))
            if pname in ("drain", "splice"):
                body = ["let mut v = %s();" % mk] + prod + ["let a = h.count();", "let b = h.count();"]
                out.append(Probe(base + "/consume_twice", body, "reject", "owned:consume_twice", control_of=ctl.name))
    return out


# level 2: (name, setup lines, first derived borrow(s), conflicting line(s), final uses, class)
LEVEL2 = [
    ("typed_view/two_at_mut", ["let mut m = v.downcast_mut::<String>().unwrap();"], ["let a = m.at_mut(0);"], ["let b = m.at_mut(0);", "use_mut(b);"], ["use_mut(a);"], "two_mutable_paths"),
    ("typed_view/two_get_mut", ["let mut m = v.downcast_mut::<String>().unwrap();"], ["let a = m.get_mut(0).unwrap();"], ["let b = m.get_mut(0).unwrap();", "use_mut(b);"], ["use_mut(a);"], "two_mutable_paths"),
    ("typed_view/two_as_mut_slice", ["let mut m = v.downcast_mut::<String>().unwrap();"], ["let a = m.as_mut_slice();"], ["let b = m.as_mut_slice();", "use_mut(b);"], ["use_mut(a);"], "two_mutable_paths"),
    ("typed_view/two_iter_mut", ["let mut m = v.downcast_mut::<String>().unwrap();"], ["let mut a = m.iter_mut();"], ["let mut b = m.iter_mut();", "use_mut(&mut b);"], ["use_mut(&mut a);"], "two_mutable_paths"),
    ("typed_view/two_drains", ["let mut m = v.downcast_mut::<String>().unwrap();"], ["let mut a = m.drain(..);"], ["let mut b = m.drain(..);", "use_mut(&mut b);"], ["use_mut(&mut a);"], "two_mutable_paths"),
    ("typed_view/at_mut_and_as_slice", ["let mut m = v.downcast_mut::<String>().unwrap();"], ["let a = m.at_mut(0);"], ["let b = m.as_slice();", "use_ref(b);"], ["use_mut(a);"], "two_mutable_paths"),
    ("typed_view/at_mut_then_push", ["let mut m = v.downcast_mut::<String>().unwrap();"], ["let a = m.at_mut(0);"], ["m.push(String::new());"], ["use_mut(a);"], "mutate_through_view_then_reuse"),
    ("typed_view/at_then_push", ["let mut m = v.downcast_mut::<String>().unwrap();"], ["let a = m.at(0);"], ["m.push(String::new());"], ["use_ref(a);"], "mutate_through_view_then_reuse"),
    ("typed_view/as_slice_then_push", ["let mut m = v.downcast_mut::<String>().unwrap();"], ["let a = m.as_slice();"], ["m.push(String::new());"], ["use_ref(a);"], "mutate_through_view_then_reuse"),
    ("typed_view/iter_then_clear", ["let mut m = v.downcast_mut::<String>().unwrap();"], ["let mut a = m.iter();"], ["m.clear();"], ["use_mut(&mut a);"], "mutate_through_view_then_reuse"),
    ("typed_view/get_then_remove", ["let mut m = v.downcast_mut::<String>().unwrap();"], ["let a = m.get(0).unwrap();"], ["let _r = m.remove(0);"], ["use_ref(a);"], "mutate_through_view_then_reuse"),
    ("typed_view/spare_then_push", ["let mut m = v.downcast_mut::<String>().unwrap();"], ["let a = m.spare_capacity_mut();"], ["m.push(String::new());"], ["use_mut(a);"], "mutate_through_view_then_reuse"),
    ("typed_view/drain_then_push", ["let mut m = v.downcast_mut::<String>().unwrap();"], ["let mut a = m.drain(..);"], ["m.push(String::new());"], ["use_mut(&mut a);"], "mutate_through_view_then_reuse"),
    ("typed_view/as_slice_then_reserve", ["let mut m = v.downcast_mut::<String>().unwrap();"], ["let a = m.as_slice();"], ["m.reserve(100);"], ["use_ref(a);"], "mutate_through_view_then_reuse"),
    ("typed_view/ref_outlives_view_then_source_mutated", [], ["let a;", "{", "    let mut m = v.downcast_mut::<String>().unwrap();", "    a = m.at_mut(0);", "}"], ["v.clear();"], ["use_mut(a);"], "borrow_across_source_mutation"),
    ("shared_typed_view/ref_outlives_view_then_source_mutated", [], ["let a;", "{", "    let r = v.downcast_ref::<String>().unwrap();", "    a = r.at(0);", "}"], ["v.clear();"], ["use_ref(a);"], "borrow_across_source_mutation"),
    ("element_mut/two_downcast_mut", ["let mut e = v.at_mut(0);"], ["let a = e.downcast_mut::<String>().unwrap();"], ["let b = e.downcast_mut::<String>().unwrap();", "use_mut(b);"], ["use_mut(a);"], "two_mutable_paths"),
    ("element_mut/downcast_mut_and_downcast_ref", ["let mut e = v.at_mut(0);"], ["let a = e.downcast_mut::<String>().unwrap();"], ["let b = e.downcast_ref::<String>().unwrap();", "use_ref(b);"], ["use_mut(a);"], "two_mutable_paths"),
    ("element_mut/downcast_mut_outlives_element_then_source_mutated", [], ["let a;", "{", "    let mut e = v.at_mut(0);", "    a = e.downcast_mut::<String>().unwrap();", "}"], ["v.clear();"], ["use_mut(a);"], "borrow_across_source_mutation"),
    ("element_ref/downcast_ref_outlives_element_then_source_mutated", [], ["let a;", "{", "    let e = v.at(0);", "    a = e.downcast_ref::<String>().unwrap();", "}"], ["v.clear();"], ["use_ref(a);"], "borrow_across_source_mutation"),
    ("iter_mut/clone_gives_two_mutable_paths", ["let mut it = v.iter_mut();"], ["let mut x = it.next().unwrap();", "let a = x.downcast_mut::<String>().unwrap();"], ["let mut it2 = it.clone();"], ["use_mut(a);"], "two_mutable_paths_setup"),
    ("drained_element/two_downcast_mut", ["let mut d = v.drain(..);", "let mut e = d.next().unwrap();"], ["let a = e.downcast_mut::<String>().unwrap();"], ["let b = e.downcast_mut::<String>().unwrap();", "use_mut(b);"], ["use_mut(a);"], "two_mutable_paths"),
    ("remove_handle/two_downcast_mut", ["let mut h = v.remove(0);"], ["let a = h.downcast_mut::<String>().unwrap();"], ["let b = h.downcast_mut::<String>().unwrap();", "use_mut(b);"], ["use_mut(a);"], "two_mutable_paths"),
    ("remove_handle/downcast_ref_then_consume", ["let mut h = v.remove(0);"], ["let a = h.downcast_ref::<String>().unwrap();"], ["let s = h.downcast::<String>();"], ["use_ref(a);"], "borrow_across_consumption"),
    ("lazy_clone/outlives_element_then_source_mutated", [], ["let l;", "let e = v.at(0);", "l = e.lazy_clone();"], ["v.clear();"], ["use_it(&l);"], "borrow_across_source_mutation"),
    ("lazy_clone/outlives_its_source_handle", [], ["let l;", "{", "    let r = v.remove(0);", "    l = r.lazy_clone();", "}"], [], ["use_it(&l);"], "escape_scope_of_handle"),
    ("splice/replacement_borrows_source", [], [], ["let it = v.splice(.., v.iter().map(|e| e.lazy_clone()));"], ["use_it(&it);"], "two_uses_in_one_call"),
    ("push_lazy_clone_of_own_element", [], ["let e = v.at(0);"], ["v.push(e.lazy_clone());"], [], "mutate_source"),
    ("drain/item_outlives_iterator_then_source_used", [], ["let e;", "{", "    let mut d = v.drain(..);", "    e = d.next().unwrap();", "}"], ["let _n = v.len();"], ["use_it(&e);"], "read_source_under_exclusive_handle"),
]


def level2():
    out = []
    for vname, mk, cloneable in VARIANTS:
        for name, setup, first, conflict, uses, cls in LEVEL2:
            text = " ".join(setup + first + conflict + uses)
            if "lazy_clone" in text and not cloneable:
                continue
            if ".reserve(" in text and vname.startswith("stack"):
                continue  # no reserve on non-resizable backends (that is C15's business)
            base = "L2/%s/%s" % (vname, name)
            ctl_body = ["let mut v = %s();" % mk] + setup + first + uses
            # programs whose conflict *is* the whole point (no first borrow) use the trivial control
            if name == "lazy_clone/outlives_its_source_handle":
                ctl_body = ["let mut v = %s();" % mk, "let r = v.remove(0);", "let l = r.lazy_clone();", "use_it(&l);"]
            if name == "splice/replacement_borrows_source":
                ctl_body = ["let mut v = %s();" % mk, "let it = v.splice(.., [w(\"x\")]);", "use_it(&it);"]
            if name == "iter_mut/clone_gives_two_mutable_paths":
                # full program: clone the iterator while an item of the original is mutably borrowed,
                # then obtain the same element through the clone
                body = ["let mut v = %s();" % mk, "let mut it = v.iter_mut();", "let mut it2 = it.clone();", "let mut x = it.next().unwrap();", "let mut y = it2.next().unwrap();",
                        "let a = x.downcast_mut::<String>().unwrap();", "let b = y.downcast_mut::<String>().unwrap();", "use_mut(a);", "use_mut(b);"]
                ctl_body = ["let mut v = %s();" % mk, "let mut it = v.iter_mut();", "let mut x = it.next().unwrap();", "let a = x.downcast_mut::<String>().unwrap();", "use_mut(a);"]
            else:
                body = ["let mut v = %s();" % mk] + setup + first + conflict + uses
            ctl = Probe(base + "/control", ctl_body, "accept", "control")
            out.append(ctl)
            out.append(Probe(base, body, "reject", "L2:" + cls, control_of=ctl.name))
    return out


# level 3: data borrowed from a *value* (removal handle, drained element, lazy clone, wrapper)
# through every borrowing accessor, checked and unchecked, against uses that end or alias the value.
# (kind, producer statements yielding `h`, has mutable accessors, needs Cloneable)
L3_KINDS = [
    ("pop_handle", ["let mut h = v.pop().unwrap();"], True, False),
    ("remove_handle", ["let mut h = v.remove(0);"], True, False),
    ("swap_remove_handle", ["let mut h = v.swap_remove(0);"], True, False),
    ("drained_element", ["let mut d = v.drain(..);", "let mut h = d.next().unwrap();"], True, False),
    ("lazy_clone", ["let e = v.at(0);", "let mut h = e.lazy_clone();"], False, True),
    ("wrapper", ["let mut h = w(\"q\");"], True, False),
]
# (accessor, statement binding `a`, use of `a`, mutable)
L3_ACCESSORS = [
    ("downcast_ref", "let a: &String = h.downcast_ref::<String>().unwrap();", "use_ref(a);", False),
    ("downcast_ref_unchecked", "let a: &String = unsafe { h.downcast_ref_unchecked::<String>() };", "use_ref(a);", False),
    ("as_bytes", "let a: &[u8] = h.as_bytes();", "use_ref(a);", False),
    ("downcast_mut", "let a: &mut String = h.downcast_mut::<String>().unwrap();", "use_mut(a);", True),
    ("downcast_mut_unchecked", "let a: &mut String = unsafe { h.downcast_mut_unchecked::<String>() };", "use_mut(a);", True),
    ("as_bytes_mut", "let a: &mut [u8] = h.as_bytes_mut();", "use_mut(a);", True),
]
L3_CONFLICTS = [
    ("drop_value", ["drop(h);"]),
    ("move_value", ["let h2 = h;"]),
    ("consume_value", ["let s = h.downcast::<String>();"]),
]


def level3():
    out = []
    for vname, mk, cloneable in (VARIANTS[0], VARIANTS[3]):
        for kname, prod, has_mut, needs_c in L3_KINDS:
            if needs_c and not cloneable:
                continue
            for aname, bind, use, is_mut in L3_ACCESSORS:
                if is_mut and not has_mut:
                    continue
                base = "L3/%s/%s/%s" % (vname, kname, aname)
                ctl = Probe(base + "/control", ["let mut v = %s();" % mk] + prod + [bind, use], "accept", "control")
                out.append(ctl)
                for cname, stmts in L3_CONFLICTS:
                    body = ["let mut v = %s();" % mk] + prod + [bind] + stmts + [use]
                    out.append(Probe("%s/%s" % (base, cname), body, "reject", "L3:%s" % cname, control_of=ctl.name))
                # the borrow outlives the value
                body = ["let mut v = %s();" % mk, "let a;", "{"] + ["    " + x for x in prod] + ["    " + bind.replace("let a:", "let b:"), "    a = b;", "}", use]
                out.append(Probe(base + "/escape_scope", body, "reject", "L3:escape_scope", control_of=ctl.name))
                # a second, aliasing mutable borrow
                if has_mut:
                    body = ["let mut v = %s();" % mk] + prod + [bind, "let z: &mut String = h.downcast_mut::<String>().unwrap();", "use_mut(z);", use]
                    out.append(Probe(base + "/second_mutable_borrow", body, "reject", "L3:second_mutable_borrow", control_of=ctl.name))
    return out


def generate():
    return level1() + level2() + level3()

"""Probe-program engine shared by C15 / C16 / C19 (DESIGN.md §2.8).

The generated input is a *program*; the implementation under test is "the library's
declarations as judged by rustc". Probes are functions in generated files; diagnostics are
attributed to probes by line span; every rejecting probe has a control; an
"accepted although it must be rejected" verdict is confirmed by compiling the probe alone.
"""
import json, os, re, subprocess, sys, time, hashlib, shutil, concurrent.futures

ROOT = os.path.dirname(os.path.dirname(os.path.abspath(__file__)))
TARGET = os.path.join(ROOT, "target")
WORK = os.path.join(TARGET, "probe_work")
EVID = os.path.join(ROOT, "evidence")
REPLAYS = os.path.join(ROOT, "replays")
KNOWN = os.path.join(ROOT, "known_findings.json")
ENV = dict(os.environ, CARGO_NET_OFFLINE="true", CARGO_TERM_COLOR="never")


def log(*a):
    print(*a, file=sys.stderr, flush=True)


def build_lib(features_default=True):
    """cargo build of /repo's library (working tree) -> path of the rlib."""
    tdir = os.path.join(TARGET, "probe_lib" if features_default else "probe_lib_noalloc")
    cmd = ["cargo", "build", "--manifest-path", "/repo/Cargo.toml", "--lib", "--target-dir", tdir, "--message-format=json", "--offline"]
    if not features_default:
        cmd.append("--no-default-features")
    p = subprocess.run(cmd, env=ENV, stdout=subprocess.PIPE, stderr=subprocess.PIPE, text=True)
    if p.returncode != 0:
        log("[probes] cargo build of the library failed:\n" + p.stderr[-3000:])
        return None
    rlib = None
    for line in p.stdout.splitlines():
        try:
            m = json.loads(line)
        except ValueError:
            continue
        if m.get("reason") == "compiler-artifact" and m.get("target", {}).get("name") == "any_vec":
            for f in m.get("filenames", []):
                if f.endswith(".rlib"):
                    rlib = f
    return rlib


def rustc_check(path, rlib, extra=()):
    """Type/borrow-check one file. Returns (rc, [diagnostic dicts of level error])."""
    cmd = ["rustc", "--edition", "2021", "--crate-type", "lib", "--emit=metadata", "-o", path + ".rmeta", "--error-format=json", "--cap-lints", "allow",
           "--extern", "any_vec=" + rlib, "-L", "dependency=" + os.path.dirname(rlib)] + list(extra) + [path]
    p = subprocess.run(cmd, env=ENV, stdout=subprocess.PIPE, stderr=subprocess.PIPE, text=True)
    errs = []
    for line in p.stderr.splitlines():
        try:
            d = json.loads(line)
        except ValueError:
            continue
        if d.get("level") == "error" and d.get("spans"):
            errs.append(d)
        elif d.get("level") == "error" and not str(d.get("message", "")).startswith("aborting due to"):
            errs.append(dict(d, spans=[{"line_start": 0, "is_primary": True}]))
    try:
        os.remove(path + ".rmeta")
    except OSError:
        pass
    return p.returncode, errs


def rustc_run(path, rlib, extra=()):
    """Compile a binary probe and run it. Returns (ok, stdout, stderr)."""
    exe = path + ".bin"
    cmd = ["rustc", "--edition", "2021", "--crate-type", "bin", "-o", exe, "--cap-lints", "allow", "--extern", "any_vec=" + rlib, "-L", "dependency=" + os.path.dirname(rlib)] + list(extra) + [path]
    p = subprocess.run(cmd, env=ENV, stdout=subprocess.PIPE, stderr=subprocess.PIPE, text=True)
    if p.returncode != 0:
        return False, "", p.stderr
    q = subprocess.run([exe], stdout=subprocess.PIPE, stderr=subprocess.PIPE, text=True, timeout=120)
    try:
        os.remove(exe)
    except OSError:
        pass
    return q.returncode == 0, q.stdout, q.stderr


class Probe:
    """One generated program fragment: a function body, its expected verdict and its control."""

    def __init__(self, name, body, expect, cls, control_of=None, sig=None, meta=None):
        self.name = name            # unique, stable
        self.body = body            # list of source lines inside `fn`
        self.expect = expect        # "accept" | "reject"
        self.cls = cls              # class label for the histogram
        self.control_of = control_of
        self.sig = sig or name      # signature used for known-finding matching
        self.meta = meta or {}
        self.verdict = None         # "accept" | "reject"
        self.codes = []


def render(prelude, probes):
    """-> (source text, {probe name: (first line, last line)})"""
    lines = prelude.rstrip("\n").split("\n")
    spans = {}
    for i, p in enumerate(probes):
        lines.append("")
        lines.append("#[allow(unused, unused_mut, unused_variables, dead_code)]")
        start = len(lines) + 1
        lines.append("pub fn probe_%d() {" % i)
        for b in p.body:
            lines.append("    " + b)
        lines.append("}")
        spans[p.name] = (start, len(lines))
    return "\n".join(lines) + "\n", spans


def judge_file(path_base, prelude, probes, rlib, extra=()):
    """Compile all probes of one file together; set verdicts by line attribution.
    Errors outside every probe (prelude) make the whole file inconclusive -> returns False."""
    src, spans = render(prelude, probes)
    path = path_base + ".rs"
    with open(path, "w") as f:
        f.write(src)
    rc, errs = rustc_check(path, rlib, extra)
    by_probe = {p.name: [] for p in probes}
    stray = []
    for e in errs:
        prim = [s for s in e["spans"] if s.get("is_primary")] or e["spans"]
        hit = False
        for s in prim:
            ln = s["line_start"]
            for name, (a, b) in spans.items():
                if a <= ln <= b:
                    by_probe[name].append((e.get("code") or {}).get("code") or "error")
                    hit = True
                    break
            if hit:
                break
        if not hit:
            stray.append(e.get("message", "?"))
    if stray:
        log("[probes] errors outside any probe in %s: %s" % (path, stray[:3]))
        return False
    for p in probes:
        p.codes = sorted(set(by_probe[p.name]))
        p.verdict = "reject" if by_probe[p.name] else "accept"
    if rc != 0 and not errs:
        log("[probes] rustc failed without diagnostics on %s" % path)
        return False
    return True


def solo_verdict(work_dir, prelude, probe, rlib, extra=()):
    """Compile one probe alone (confirmation of an unexpected verdict)."""
    h = hashlib.sha1(probe.name.encode()).hexdigest()[:10]
    base = os.path.join(work_dir, "solo_" + h)
    src, _ = render(prelude, [probe])
    with open(base + ".rs", "w") as f:
        f.write(src)
    rc, errs = rustc_check(base + ".rs", rlib, extra)
    return ("reject" if errs or rc != 0 else "accept"), sorted(set((e.get("code") or {}).get("code") or "error" for e in errs)), base + ".rs"


def save_replay(prop, prelude, probe, note):
    os.makedirs(REPLAYS, exist_ok=True)
    h = hashlib.sha1(probe.name.encode()).hexdigest()[:8]
    path = os.path.join(REPLAYS, "%s-probe-%s.rs" % (prop, h))
    src, _ = render(prelude, [probe])
    with open(path, "w") as f:
        f.write("// anyvec probe replay: property %s\n// probe: %s\n// expected: %s   observed: %s\n// %s\n" % (prop, probe.name, probe.expect, probe.verdict, note))
        f.write(src)
    return path


def load_known():
    try:
        return json.load(open(KNOWN))
    except FileNotFoundError:
        return {"known": [], "fixed": []}


def known_match(known, prop, sig, probe_name):
    for k in known.get("known", []):
        if k.get("property") != prop:
            continue
        m = k.get("match", {})
        ok = True
        if "sig" in m and not re.fullmatch(m["sig"], sig):
            ok = False
        if "probe" in m and not re.fullmatch(m["probe"], probe_name):
            ok = False
        if ok and ("sig" in m or "probe" in m):
            return k
    return None


def write_evidence(prop, tier, seed, coverage, wall, violations, assumptions):
    os.makedirs(EVID, exist_ok=True)
    ev = {"property_id": prop, "tier": tier, "seed": seed, "level": "exploration", "coverage": coverage, "assumptions": assumptions, "wall_s": round(wall, 3), "violations": violations}
    tmp = os.path.join(EVID, ".%s.json.tmp" % prop)
    json.dump(ev, open(tmp, "w"), indent=1)
    os.replace(tmp, os.path.join(EVID, "%s.json" % prop))


def run_batches(prop, prelude, probes, rlib, per_file=40, extra=(), workers=16):
    """Judge all probes (batched, parallel). Returns False when inconclusive."""
    work = os.path.join(WORK, prop)
    shutil.rmtree(work, ignore_errors=True)
    os.makedirs(work, exist_ok=True)
    batches = [probes[i:i + per_file] for i in range(0, len(probes), per_file)]
    ok = True
    with concurrent.futures.ThreadPoolExecutor(max_workers=workers) as ex:
        futs = [ex.submit(judge_file, os.path.join(work, "batch_%03d" % i), prelude, b, rlib, extra) for i, b in enumerate(batches)]
        for f in futs:
            ok = f.result() and ok
    return ok

"""Entry point of the probe-program checks: C15, C16, C19 (called by /verif/check)."""
import os, random, sys, time, json

sys.path.insert(0, os.path.dirname(os.path.abspath(__file__)))
import common
from common import log

ASSUMPTIONS = [
    "verdicts are those of the installed rustc 1.95 on the library built from /repo's working tree",
    "the oracle is a rule table over a finite program grammar; conflict patterns outside the grammar are not searched",
    "every rejecting probe has a control program (same program without the conflicting line) that must compile; unexpected acceptances are confirmed by compiling the probe alone",
]


def finish(prop, tier, seed, t0, probes, prelude, rule, extra_cov, unexpected, inconclusive):
    """Common tail: known-finding filter, VIOLATION lines, evidence. `unexpected` = list of
    (probe, signature, message)."""
    known = common.load_known()
    new, seen_known = [], set()
    for p, sig, msg in unexpected:
        k = common.known_match(known, prop, sig, p.name)
        if k is not None:
            key = k.get("id", k.get("what"))
            if key not in seen_known:
                seen_known.add(key)
                print("KNOWN-FINDING: property=%s %s" % (prop, k.get("what", "")))
        else:
            new.append((p, sig, msg))
    judged = [p for p in probes if p.verdict is not None]
    nontrivial = set(p.name for p in judged if p.expect == "reject" or p.meta.get("nontrivial"))
    classes = {}
    for p in judged:
        classes[p.cls] = classes.get(p.cls, 0) + 1
    samples = []
    for p in judged:
        if p.expect == "reject" and len(samples) < 6:
            samples.append({"probe": p.name, "expected": p.expect, "rustc": p.verdict, "error_codes": p.codes, "program": p.body})
    cov = {
        "evaluations": len(judged),
        "distinct_nontrivial": len(nontrivial),
        "rule": rule,
        "samples": samples,
        "classes": classes,
        "known_findings_matched": sorted(seen_known),
        "exhaustive": True,
        "explanation": "the finite program grammar was enumerated completely; each program compiled by rustc and compared with the rule-table oracle",
    }
    cov.update(extra_cov)
    wall = time.time() - t0
    if len(judged) > 0 and len(nontrivial) >= 2 and samples:
        common.write_evidence(prop, tier, seed, cov, wall, len(new), ASSUMPTIONS)
    shown = 0
    for p, sig, msg in new:
        path = p.meta.get("replay") or common.save_replay(prop, prelude, p, msg)
        print("VIOLATION property=%s replay=%s" % (prop, path))
        print("  [%s] %s" % (sig, msg))
        shown += 1
        if shown >= int(os.environ.get("VERIF_MAX_SHOWN", "12")):
            break
    if new:
        return 1
    if inconclusive:
        return 2
    print("OK property=%s tier=%s probes=%d rejecting=%d wall=%.1fs" % (prop, tier, len(judged), len(nontrivial), wall))
    return 0


def run_c16(tier, seed, replay):
    import c16
    t0 = time.time()
    rlib = common.build_lib(True)
    if not rlib:
        return 2
    if replay:
        return replay_file("C16", replay, rlib)
    probes = c16.generate()
    ok = common.run_batches("C16", c16.PRELUDE, probes, rlib, per_file=30)
    if not ok:
        log("[C16] a probe file produced diagnostics outside any probe: inconclusive")
        return 2
    by_name = {p.name: p for p in probes}
    work = os.path.join(common.WORK, "C16")
    unexpected = []
    inconclusive = False
    for p in probes:
        if p.verdict == p.expect:
            continue
        # confirm alone
        v, codes, path = common.solo_verdict(work, c16.PRELUDE, p, rlib)
        p.verdict, p.codes = v, codes
        if v == p.expect:
            continue
        if p.expect == "accept":
            if p.cls == "control":
                log("[C16] control %s does not compile (%s): its probes are inconclusive" % (p.name, codes))
                inconclusive = True
            else:
                unexpected.append((p, "rejected:" + p.name, "program that must compile is rejected by rustc (%s): %s" % (",".join(codes), " ".join(p.body))))
        else:
            ctl = by_name.get(p.control_of)
            if ctl is not None and ctl.verdict != "accept":
                inconclusive = True
                continue
            unexpected.append((p, "accepted:" + p.name, "conflicting program is ACCEPTED by rustc (class %s): %s" % (p.cls, " ".join(p.body))))
    # a rejecting probe whose control fails proves nothing
    for p in probes:
        if p.expect == "reject" and p.control_of and by_name[p.control_of].verdict != "accept":
            inconclusive = True
    rule = ("program = producer of a handle (erased and typed views, references, iterators, removal handles, drain/splice, byte views, lazy clones) x conflicting action "
            "(mutate source, read source under an exclusive handle, second exclusive handle, move/drop source, escape the source's scope, consume a handle twice) "
            "plus a second level (two mutable paths through a typed view / element handle / cloned IterMut, mutation through a typed view while an earlier borrow is reused) "
            "x backend {Heap, Stack} x constraint set {none, Cloneable}; oracle = rule table by handle kind; non-trivial = probes that must be rejected (their control compiled); distinct = distinct probe name")
    return finish("C16", tier, seed, t0, probes, c16.PRELUDE, rule, {"controls": sum(1 for p in probes if p.cls == "control")}, unexpected, inconclusive)


def replay_file(prop, path, rlib, extra=()):
    """Replay = compile the saved program; the header says what was expected.
    (.replay files of the C19 feature-set differential are run by the matching harness build.)"""
    if path.endswith(".replay"):
        import subprocess
        tag = "rel"
        for line in open(path):
            if line.startswith("profile "):
                tag = line.split()[1]
        exe = os.path.join(common.TARGET, tag, "rel", "pbt")
        harness = os.path.join(common.ROOT, "harness")
        extra_args = ["--no-default-features"] if tag == "noalloc" else []
        b = subprocess.run(["cargo", "build", "-p", "pbt", "--profile", "rel", "--target-dir", os.path.join(common.TARGET, tag), "--manifest-path", os.path.join(harness, "Cargo.toml")] + extra_args, env=common.ENV, stdout=subprocess.PIPE, stderr=subprocess.PIPE, text=True)
        if b.returncode != 0:
            return 2
        q = subprocess.run([exe, "--replay", path], env=common.ENV, stdout=subprocess.PIPE, stderr=subprocess.PIPE, text=True, timeout=600)
        sys.stdout.write(q.stdout)
        return 1 if (q.returncode == 1 or q.returncode < 0) else (0 if q.returncode == 0 else 2)
    text = open(path).read()
    expected = None
    for line in text.splitlines()[:6]:
        if line.startswith("// expected:"):
            expected = line.split()[2]
    rc, errs = common.rustc_check(path, rlib, extra)
    verdict = "reject" if (errs or rc != 0) else "accept"
    print("replay %s: expected %s, rustc says %s" % (path, expected, verdict))
    if expected and verdict != expected:
        print("VIOLATION property=%s replay=%s" % (prop, path))
        return 1
    return 0


def run(prop, tier, seed, replay):
    if prop == "C16":
        return run_c16(tier, seed, replay)
    if prop == "C15":
        import c15
        return c15.run(tier, seed, replay)
    if prop == "C19":
        import c19
        return c19.run(tier, seed, replay)
    return 2

"""C19: without the alloc feature the crate is heap-free and fully functional.

(i)   link probe: a #![no_std] staticlib using the library builds without a global allocator
      iff the `alloc` crate is absent from the crate graph (control: the same probe against the
      default-feature build must be refused by rustc);
(ii)  compile probes against the --no-default-features build: no heap backend, default backend
      has capacity 0, the complete operation set is available on stack-backed vectors;
(iii) feature-set differential: the same generated C01/C02/C11 cases on stack backends run in a
      harness built with default features and in one built with --no-default-features; both
      must satisfy the Vec model and produce identical digests.
"""
import json, os, subprocess, sys, time, shutil
import common
from common import Probe, log

STATICLIB = r'''
#![no_std]
#![allow(unused)]
use any_vec::AnyVec;
use any_vec::any_value::{AnyValue, AnyValueWrapper};
use any_vec::mem::Stack;
use any_vec::traits::None;

#[panic_handler]
fn panic(_: &core::panic::PanicInfo) -> ! { loop {} }

#[no_mangle]
pub extern "C" fn anyvec_probe(x: u32) -> u32 {
    let mut v: AnyVec<dyn None, Stack<64>> = AnyVec::new::<u32>();
    v.push(AnyValueWrapper::new(x));
    v.push(AnyValueWrapper::new(x + 1));
    let a = v.pop().unwrap().downcast::<u32>().unwrap();
    let b = *v.downcast_ref::<u32>().unwrap().at(0);
    a + b
}
'''

PRELUDE = r'''
#![allow(unused, dead_code, unused_mut, unused_variables)]
use any_vec::*;
use any_vec::any_value::*;
use any_vec::mem::*;
use any_vec::traits::*;
fn w(x: u32) -> AnyValueWrapper<u32> { AnyValueWrapper::new(x) }
type SV = AnyVec<dyn Cloneable, Stack<64>>;
type SN = AnyVec<dyn Cloneable, StackN<4, 64>>;
'''

FULL_OPS = [
    ("construct", ["let v: SV = AnyVec::new::<u32>();", "let n: SN = AnyVec::new::<u32>();"]),
    ("push_insert", ["let mut v: SV = AnyVec::new::<u32>();", "v.push(w(1));", "v.insert(0, w(2));", "unsafe { v.push_unchecked(w(3)); v.insert_unchecked(0, w(4)); }"]),
    ("pop_remove_swap_remove", ["let mut v: SV = AnyVec::new::<u32>();", "v.push(w(1));", "drop(v.pop());", "v.push(w(1)); v.push(w(2));", "let b = v.remove(0).downcast::<u32>();", "let c = v.swap_remove(0);"]),
    ("drain_splice", ["let mut v: SV = AnyVec::new::<u32>();", "v.push(w(1));", "for e in v.drain(..) { let _ = e.downcast_ref::<u32>(); }", "let s = v.splice(.., [w(5), w(6)]);", "drop(s);"]),
    ("get_iter", ["let mut v: SV = AnyVec::new::<u32>();", "v.push(w(1));", "let a = v.get(0); let b = v.at(0);", "for e in v.iter() {}", "for mut e in v.iter_mut() { let _ = e.downcast_mut::<u32>(); }", "let x = v.get_mut(0); "]),
    ("clone_family", ["let mut v: SV = AnyVec::new::<u32>();", "v.push(w(1));", "let c = v.clone();", "let e = v.clone_empty();", "let mut f = v.clone_empty_in(StackN::<2, 16>);", "f.push(v.at(0).lazy_clone());"]),
    ("typed_view", ["let mut v: SV = AnyVec::new::<u32>();", "let mut t = v.downcast_mut::<u32>().unwrap();", "t.push(1); t.insert(0, 2);", "let a = t.pop(); let b = t.remove(0);", "t.push(3); let c = t.swap_remove(0);", "t.push(4); for x in t.drain(..) {}", "for x in t.splice(.., [7u32, 8]) {}", "let s = t.as_slice(); let m = t.as_mut_slice(); let sp = t.spare_capacity_mut();", "t.clear();"]),
    ("byte_views", ["let mut v: SV = AnyVec::new::<u32>();", "let a = v.as_bytes().len();", "let b = v.as_bytes_mut().len();", "let c = v.spare_bytes_mut().len();", "unsafe { v.set_len(0); }"]),
    ("introspection", ["let v: SV = AnyVec::new::<u32>();", "let a = v.element_typeid(); let b = v.element_layout(); let c = v.element_drop(); let d = v.element_clone();", "let e = v.len(); let f = v.capacity(); let g = v.is_empty();"]),
    ("empty_backend_raw_parts", ["let v: AnyVec<dyn None, Empty> = AnyVec::new::<u32>();", "let p = v.into_raw_parts();", "let v2: AnyVec<dyn None, Empty> = unsafe { AnyVec::from_raw_parts(p) };"]),
    ("raw_values", ["let mut v: SV = AnyVec::new::<u32>();", "let mut x = 5u32;", "let r = unsafe { AnyValueRaw::new(core::ptr::NonNull::from(&mut x).cast::<u8>(), 4, core::any::TypeId::of::<u32>()) };", "v.push(r);"]),
    ("swap_values", ["let mut v: SV = AnyVec::new::<u32>();", "v.push(w(1));", "let mut a = w(9);", "v.at_mut(0).swap(&mut a);"]),
]


def run(tier, seed, replay):
    t0 = time.time()
    rl_def = common.build_lib(True)
    rl_no = common.build_lib(False)
    if not rl_def or not rl_no:
        return 2
    if replay:
        import probes_main
        return probes_main.replay_file("C19", replay, rl_no)
    work = os.path.join(common.WORK, "C19")
    shutil.rmtree(work, ignore_errors=True)
    os.makedirs(work, exist_ok=True)
    unexpected = []
    inconclusive = False
    probes = []
    # ---- (i) link probe
    src = os.path.join(work, "staticlib_probe.rs")
    open(src, "w").write(STATICLIB)

    def link(rlib, tag):
        out = os.path.join(work, "probe_%s.a" % tag)
        cmd = ["rustc", "--edition", "2021", "--crate-type", "staticlib", "-C", "panic=abort", "-C", "opt-level=1", "--cap-lints", "allow", "--extern", "any_vec=" + rlib, "-L", "dependency=" + os.path.dirname(rlib), "-o", out, src]
        p = subprocess.run(cmd, env=common.ENV, stdout=subprocess.PIPE, stderr=subprocess.PIPE, text=True)
        try:
            os.remove(out)
        except OSError:
            pass
        return p.returncode == 0, p.stderr

    ok_no, err_no = link(rl_no, "noalloc")
    ok_def, err_def = link(rl_def, "default")
    p1 = Probe("link/no_std-staticlib-without-global-allocator/no-default-features", STATICLIB.strip().split("\n"), "accept", "link-probe", meta={"nontrivial": True})
    p1.verdict = "accept" if ok_no else "reject"
    p2 = Probe("link/no_std-staticlib-without-global-allocator/default-features(control: must be refused)", ["// same program against the default-feature build"], "reject", "link-probe-control", meta={"nontrivial": True})
    p2.verdict = "accept" if ok_def else "reject"
    probes += [p1, p2]
    if not ok_no:
        allocmsg = "no global memory allocator" in err_no
        unexpected.append((p1, "link:alloc-in-crate-graph" if allocmsg else "link:failed", "a #![no_std] staticlib using the --no-default-features build does not link without a global allocator: " + err_no.strip().split("\n")[0][:300]))
    if ok_def:
        # the detector does not discriminate (e.g. the heap backend no longer pulls alloc in): inconclusive, not a violation
        log("[C19] control: the default-feature build also links without a global allocator - detector lost its discrimination")
        inconclusive = True
    # ---- (ii) compile probes against the no-alloc build
    cp = []
    cp.append(Probe("noalloc/heap-backend-is-absent", ["use any_vec::mem::Heap;", "let v: AnyVec<dyn None, Heap> = AnyVec::new::<u32>();"], "reject", "no-heap", meta={"nontrivial": True}))
    cp.append(Probe("noalloc/default-backend-has-capacity-0", ["let v: AnyVec = AnyVec::new::<u32>();", "let c: usize = v.capacity();", "let p = v.into_raw_parts();"], "accept", "default-backend", meta={"nontrivial": True}))
    cp.append(Probe("noalloc/default-backend-is-not-resizable", ["let mut v: AnyVec = AnyVec::new::<u32>();", "v.reserve(1);"], "reject", "default-backend", meta={"nontrivial": True}))
    for name, body in FULL_OPS:
        cp.append(Probe("noalloc/ops/" + name, body, "accept", "operation-set", meta={"nontrivial": True}))
    ok = common.run_batches("C19", PRELUDE, cp, rl_no, per_file=8)
    if not ok:
        inconclusive = True
    # the same operation-set probes must also compile on the default build (they are the reference)
    cp_def = [Probe("default/ops/" + name, body, "accept", "operation-set-reference") for name, body in FULL_OPS]
    ok = common.run_batches("C19d", PRELUDE, cp_def, rl_def, per_file=8)
    if not ok:
        inconclusive = True
    ref_broken = set(p.name.split("/", 1)[1] for p in cp_def if p.verdict is not None and p.verdict != p.expect)
    for p in cp + cp_def:
        if p.verdict is None or p.verdict == p.expect:
            continue
        if p in cp and p.name.split("/", 1)[1] in ref_broken:
            inconclusive = True
            continue
        rl = rl_no if p in cp else rl_def
        v, codes, path = common.solo_verdict(work, PRELUDE, p, rl)
        p.verdict, p.codes = v, codes
        if v == p.expect:
            continue
        if p in cp_def:
            inconclusive = True
            log("[C19] reference probe %s does not compile on the default build: %s" % (p.name, codes))
        elif p.expect == "accept":
            unexpected.append((p, "rejected:" + p.name, "without the alloc feature this program no longer compiles (%s): %s" % (",".join(codes), " ".join(p.body))))
        else:
            unexpected.append((p, "accepted:" + p.name, "without the alloc feature this program must be rejected but compiles: %s" % " ".join(p.body)))
    probes += cp + cp_def
    # ---- (iii) differential run of the generated stack-backend cases in both feature sets
    diff = differential(tier, seed)
    if diff is None:
        inconclusive = True
        diff = {}
    else:
        for msg in diff.get("mismatches", []):
            pm = Probe("differential/" + msg["cfg"], ["// " + msg["text"]], "accept", "differential")
            pm.verdict = "reject"
            if msg.get("replay"):
                pm.meta["replay"] = msg["replay"]
            unexpected.append((pm, "differential:" + msg["kind"], msg["text"]))
    rule = ("(i) link probe: #![no_std] staticlib without global allocator against both feature sets; (ii) compile probes against --no-default-features: heap backend absent, default backend capacity 0 and not resizable, 12 operation-set programs on stack-backed vectors (same programs are the reference on the default build); "
            "(iii) the generated C01/C02/C11 one-step cases and proptest histories on the stack configurations run in both feature sets and compared by per-configuration digest; non-trivial = probes with a definite verdict, differential cases as in C01/C02/C11")
    import probes_main
    extra = {"differential": diff}
    rc = probes_main.finish("C19", tier, seed, t0, probes, PRELUDE, rule, extra, unexpected, inconclusive)
    # fold the differential case counts into the evidence
    try:
        evp = os.path.join(common.EVID, "C19.json")
        ev = json.load(open(evp))
        ev["coverage"]["evaluations"] += diff.get("evaluations", 0)
        ev["coverage"]["distinct_nontrivial"] += diff.get("distinct_nontrivial", 0)
        ev["coverage"]["probe_programs"] = len(probes)
        if diff.get("samples"):
            ev["coverage"]["samples"] = ev["coverage"]["samples"][:4] + [{"differential_case": s} for s in diff["samples"][:3]]
        ev["wall_s"] = round(time.time() - t0, 3)
        json.dump(ev, open(evp, "w"), indent=1)
    except (OSError, KeyError, ValueError):
        pass
    return rc


def differential(tier, seed):
    """Build the harness in both feature sets, run `pbt C19` (stack configurations), compare."""
    harness = os.path.join(common.ROOT, "harness")
    outs = {}
    for tag, extra in (("rel", []), ("noalloc", ["--no-default-features"])):
        tdir = os.path.join(common.TARGET, tag)
        cmd = ["cargo", "build", "-p", "pbt", "--profile", "rel", "--target-dir", tdir, "--manifest-path", os.path.join(harness, "Cargo.toml")] + extra
        p = subprocess.run(cmd, env=common.ENV, stdout=subprocess.PIPE, stderr=subprocess.PIPE, text=True)
        if p.returncode != 0:
            log("[C19] harness build (%s) failed:\n%s" % (tag, "\n".join(l for l in p.stderr.splitlines() if l.startswith("error"))[-2000:]))
            return None
        out = os.path.join(common.EVID, ".parts", "C19.%s.json" % tag)
        os.makedirs(os.path.dirname(out), exist_ok=True)
        exe = os.path.join(tdir, "rel", "pbt")
        crumbs = os.path.join(common.EVID, ".crumbs")
        os.makedirs(crumbs, exist_ok=True)
        import glob, hashlib
        for f in glob.glob(os.path.join(crumbs, "C19.%s.*.crumb" % tag)):
            os.remove(f)
        q = subprocess.run([exe, "C19", "--tier", tier, "--seed", str(seed), "--profile", tag, "--out", out, "--replays", common.REPLAYS, "--crumbs", crumbs, "--threads", str(os.cpu_count() or 8)], env=common.ENV, stdout=subprocess.PIPE, stderr=subprocess.PIPE, text=True, timeout=3600)
        sys.stderr.write(q.stderr[-1500:])
        if q.returncode < 0 and q.returncode != -9:
            # the harness died on a signal in this feature set: that is a behavioural difference
            crashes = []
            for c in sorted(glob.glob(os.path.join(crumbs, "C19.%s.*.crumb" % tag))):
                text = open(c).read().strip()
                if not text:
                    continue
                os.makedirs(common.REPLAYS, exist_ok=True)
                rp = os.path.join(common.REPLAYS, "C19-crash-%s.%s.replay" % (hashlib.sha1(text.encode()).hexdigest()[:8], tag))
                open(rp, "w").write("# the %s harness died on signal %d while running this case\nprofile %s\n%s\n" % (tag, -q.returncode, tag, text))
                crashes.append(rp)
            outs[tag] = {"crashed": -q.returncode, "crash_replays": crashes, "evaluations": 0, "distinct_nontrivial": 0, "samples": [], "violations": [], "per_config": {}, "digests": {}}
            continue
        if q.returncode not in (0, 1) or not os.path.exists(out):
            log("[C19] pbt C19 (%s) failed rc=%s" % (tag, q.returncode))
            return None
        outs[tag] = json.load(open(out))
    a, b = outs["rel"], outs["noalloc"]
    res = {"evaluations": a["evaluations"] + b["evaluations"], "distinct_nontrivial": a["distinct_nontrivial"] + b["distinct_nontrivial"], "samples": a["samples"][:3], "mismatches": [],
           "per_config_default": a["per_config"], "per_config_noalloc": b["per_config"], "digests_equal": a.get("digests") == b.get("digests")}
    for tag, j in outs.items():
        for v in j["violations"]:
            import re as _re
            m = _re.search(r"\[replay=([^\]]+)\]", v["trace"])
            res["mismatches"].append({"cfg": v["cfg"], "kind": "model:" + v["sig"], "replay": m.group(1) if m else None, "text": "[%s feature set] %s: %s :: %s" % ("default" if tag == "rel" else "no-default-features", v["cfg"], v["msg"], v["trace"][:300])})
    for tag, j in outs.items():
        if j.get("crashed"):
            for rp in (j["crash_replays"] or [None])[:6]:
                res["mismatches"].append({"cfg": "crash", "kind": "crash-signal-%d" % j["crashed"], "replay": rp, "text": "the harness built %s died on signal %d (the other feature set did not)" % ("with default features" if tag == "rel" else "with --no-default-features", j["crashed"])})
    if any(j.get("crashed") for j in outs.values()):
        return res
    da, db = a.get("digests", {}), b.get("digests", {})
    for cfg in sorted(set(da) | set(db)):
        if da.get(cfg) != db.get(cfg):
            res["mismatches"].append({"cfg": cfg, "kind": "digest", "text": "configuration %s behaves differently without the alloc feature (case/trace digest %s vs %s, cases %s vs %s)" % (cfg, da.get(cfg), db.get(cfg), a["per_config"].get(cfg), b["per_config"].get(cfg))})
    return res

"""C15: Send/Sync/Clone constraints are enforced on elements and mirrored by handles.

Part A: auto-trait truth table of every public vector / view / handle / iterator type over
        constraint set x backend (x element class for typed views), computed by a generated
        program (inherent-const shadowing, as the `impls` crate does) and compared with the
        rule table of the statement.
Part B: compile probes with accept/reject verdicts: constructors x constraint set x element
        class; clone / lazy_clone availability; capacity methods x backend capability;
        opaque typed drain/splice iterators.
"""
import os, time, itertools
import common
from common import Probe, log

SETS = [  # (rust type, name, cloneable, send, sync)
    ("dyn None", "None", False, False, False),
    ("dyn Send", "Send", False, True, False),
    ("dyn Sync", "Sync", False, False, True),
    ("dyn Send + Sync", "Send+Sync", False, True, True),
    ("dyn Cloneable", "Cloneable", True, False, False),
    ("dyn Cloneable + Send", "Cloneable+Send", True, True, False),
    ("dyn Cloneable + Sync", "Cloneable+Sync", True, False, True),
    ("dyn Cloneable + Send + Sync", "Cloneable+Send+Sync", True, True, True),
]

# name -> (rust type, builder Send, builder Sync, Mem Send, Mem Sync, resizable, sizeable, rawparts, default)
BACKENDS = {
    "Heap": ("Heap", True, True, True, True, True, True, True, True),
    "Stack": ("Stack<64>", True, True, True, True, False, False, False, True),
    "StackN": ("StackN<2, 64>", True, True, True, True, False, False, False, True),
    "Empty": ("Empty", True, True, True, True, False, False, True, True),
    "UserPlain": ("BPlain", True, True, True, True, False, False, False, True),
    "UserBuilderNotSendNotSync": ("BNotSend", False, False, True, True, False, False, False, True),
    "UserBuilderNotSync": ("BNotSync", True, False, True, True, False, False, False, True),
    "UserBuilderNotSend": ("BSyncNotSend", False, True, True, True, False, False, False, True),
    "UserMemNotSendNotSync": ("BMemNotSend", True, True, False, False, False, False, False, True),
    "UserMemNotSync": ("BMemNotSync", True, True, True, False, False, False, False, True),
    "UserMemNotSend": ("BMemSyncNotSend", True, True, False, True, False, False, False, True),
}

# element classes: name -> (rust type, Send, Sync, Clone)
ELEMS = {
    "SendSync": ("u8", True, True, True),
    "SendOnly": ("Cell<u8>", True, False, True),
    "SyncOnly": ("SyncOnly", False, True, True),
    "Neither": ("Rc<u8>", False, False, True),
    "SendSyncNoClone": ("NC<u8>", True, True, False),
    "SendOnlyNoClone": ("NC<Cell<u8>>", True, False, False),
    "SyncOnlyNoClone": ("NC<SyncOnly>", False, True, False),
    "NeitherNoClone": ("NC<Rc<u8>>", False, False, False),
}

COMMON = r'''
#![allow(unused, dead_code, unused_mut, unused_variables, non_camel_case_types)]
use any_vec::*;
use any_vec::traits::*;
use any_vec::mem::*;
use any_vec::element::*;
use any_vec::any_value::*;
use any_vec::ops;
use std::alloc::Layout;
use std::cell::Cell;
use std::marker::PhantomData;
use std::rc::Rc;
use std::sync::MutexGuard;

#[derive(Clone)]
pub struct SyncOnly(PhantomData<MutexGuard<'static, ()>>);
pub struct NC<T>(T);

macro_rules! backend {
    ($b:ident, $m:ident, $bmark:ty, $mmark:ty) => {
        #[derive(Clone, Default)]
        pub struct $b(PhantomData<$bmark>);
        pub struct $m(Layout, PhantomData<$mmark>);
        impl MemBuilder for $b {
            type Mem = $m;
            fn build(&mut self, l: Layout) -> $m { $m(l, PhantomData) }
        }
        impl Mem for $m {
            fn as_ptr(&self) -> *const u8 { self.0.align() as *const u8 }
            fn as_mut_ptr(&mut self) -> *mut u8 { self.0.align() as *mut u8 }
            fn element_layout(&self) -> Layout { self.0 }
            fn size(&self) -> usize { 0 }
        }
    };
}
backend!(BPlain, MPlain, (), ());
backend!(BNotSend, MOk1, Rc<()>, ());
backend!(BNotSync, MOk2, Cell<()>, ());
backend!(BSyncNotSend, MOk3, MutexGuard<'static, ()>, ());
backend!(BMemNotSend, MNotSend, (), Rc<()>);
backend!(BMemNotSync, MNotSync, (), Cell<()>);
backend!(BMemSyncNotSend, MSyncNotSend, (), MutexGuard<'static, ()>);

fn need_send<T: Send>(_: &T) {}
fn need_sync<T: Sync>(_: &T) {}
'''

TABLE_MACRO = r'''
macro_rules! impls {
    ($t:ty : $($tr:tt)+) => {{
        trait DoesNotImpl { const IMPLS: bool = false; }
        impl<T: ?Sized> DoesNotImpl for T {}
        struct Wrapper<T: ?Sized>(PhantomData<T>);
        #[allow(dead_code)]
        impl<T: ?Sized + $($tr)+> Wrapper<T> { const IMPLS: bool = true; }
        <Wrapper<$t>>::IMPLS
    }};
}
'''

# erased derived types: (name, rust type template, kind)
ERASED = [
    ("AnyVec", "AnyVec<{S}, {B}>", "vec"),
    ("ElementRef", "ElementRef<'static, {S}, {B}>", "shared"),
    ("IterRef", "IterRef<'static, {S}, {B}>", "shared"),
    ("ElementMut", "ElementMut<'static, {S}, {B}>", "exclusive"),
    ("Element", "Element<'static, {S}, {B}>", "exclusive"),
    ("IterMut", "IterMut<'static, {S}, {B}>", "exclusive"),
    ("Pop", "ops::Pop<'static, {S}, {B}>", "exclusive"),
    ("Remove", "ops::Remove<'static, {S}, {B}>", "exclusive"),
    ("SwapRemove", "ops::SwapRemove<'static, {S}, {B}>", "exclusive"),
    ("Drain", "ops::Drain<'static, {S}, {B}>", "exclusive"),
    ("Splice", "ops::Splice<'static, {S}, {B}, std::vec::IntoIter<AnyValueWrapper<u8>>>", "exclusive"),
]
ERASED_CLONEABLE = [
    ("LazyClone<ElementRef>", "LazyClone<'static, Element<'static, {S}, {B}>>", "shared"),
    ("LazyClone<Pop>", "LazyClone<'static, ops::Pop<'static, {S}, {B}>>", "shared"),
]
TYPED = [
    ("AnyVecRef", "AnyVecRef<'static, {E}, {B}>", "typed_shared"),
    ("AnyVecMut", "AnyVecMut<'static, {E}, {B}>", "typed_exclusive"),
]


def table_rows():
    rows = []
    for (st, sname, sc, ssend, ssync) in SETS:
        for bname, b in BACKENDS.items():
            v_send = ssend and b[1] and b[3]
            v_sync = ssync and b[2] and b[4]
            types = list(ERASED) + (ERASED_CLONEABLE if sc else [])
            for tname, templ, kind in types:
                ty = templ.replace("{S}", st).replace("{B}", b[0])
                for trait in ("Send", "Sync"):
                    rows.append({"name": "%s<%s,%s>: %s" % (tname, sname, bname, trait), "ty": ty, "trait": trait, "kind": kind, "type": tname, "v_send": v_send, "v_sync": v_sync, "set": sname, "backend": bname})
    for ename, e in ELEMS.items():
        if not e[3]:
            continue  # Clone is irrelevant for typed views
        for bname, b in BACKENDS.items():
            for tname, templ, kind in TYPED:
                ty = templ.replace("{E}", e[0]).replace("{B}", b[0])
                t_send = e[1] and b[1] and b[3]
                t_sync = e[2] and b[2] and b[4]
                for trait in ("Send", "Sync"):
                    rows.append({"name": "%s<%s,%s>: %s" % (tname, ename, bname, trait), "ty": ty, "trait": trait, "kind": kind, "type": tname, "v_send": t_send, "v_sync": t_sync, "set": ename, "backend": bname})
    return rows


def judge_row(r, actual):
    """-> None if fine, else (signature, message)."""
    kind, trait = r["kind"], r["trait"]
    vs, vy = r["v_send"], r["v_sync"]
    if kind == "vec":
        want = vs if trait == "Send" else vy
        if actual != want:
            return ("vec-autotrait:%s" % r["name"], "%s is %s but the constraint set / backend say it must be %s" % (r["name"], actual, want))
        return None
    if not actual:
        return None  # only-when direction: not being Send/Sync is always allowed
    if kind in ("shared", "typed_shared"):
        allowed = vy  # a shared, copyable handle behaves like &Vector: needs Vector: Sync for Send and Sync
    else:
        allowed = vs if trait == "Send" else vy
    if allowed:
        return None
    if kind in ("shared", "typed_shared") and trait == "Send" and vs and not vy:
        return ("shared-handle-send-without-sync:%s" % r["type"], "%s holds: a shared (clonable) handle can be sent to another thread although the vector it refers to is not Sync" % r["name"])
    return ("handle-autotrait-unsound:%s" % r["name"], "%s holds although the corresponding reference to the vector could not be %s" % (r["name"], "sent" if trait == "Send" else "shared"))


def run_table(rlib, work):
    rows = table_rows()
    chunks = [rows[i::8] for i in range(8)]
    results = {}

    def one(k):
        src = [COMMON, TABLE_MACRO, "fn main() {"]
        for i, r in enumerate(chunks[k]):
            src.append('    println!("%d {}", impls!(%s: %s));' % (i, r["ty"], r["trait"]))
        src.append("}")
        path = os.path.join(work, "table_%d.rs" % k)
        open(path, "w").write("\n".join(src))
        ok, out, err = common.rustc_run(path, rlib)
        if not ok:
            log("[C15] table program %d failed to build/run:\n%s" % (k, err[-2000:]))
            return None
        res = {}
        for line in out.splitlines():
            i, v = line.split()
            res[chunks[k][int(i)]["name"]] = (v == "true")
        return res

    import concurrent.futures
    with concurrent.futures.ThreadPoolExecutor(max_workers=8) as ex:
        outs = list(ex.map(one, range(8)))
    if any(o is None for o in outs):
        return None, rows
    for o in outs:
        results.update(o)
    return results, rows


def compile_probes():
    probes = []
    # constructors x constraint set x element class
    for (st, sname, sc, ssend, ssync) in SETS:
        for ename, (et, es, ey, ec) in ELEMS.items():
            ok = (not ssend or es) and (not ssync or ey) and (not sc or ec)
            for cname, code in [("new", "let v: AnyVec<%s, Heap> = AnyVec::new::<%s>();" % (st, et)),
                                ("new_in", "let v: AnyVec<%s, Heap> = AnyVec::new_in::<%s>(Heap);" % (st, et)),
                                ("with_capacity", "let v: AnyVec<%s, Heap> = AnyVec::with_capacity::<%s>(4);" % (st, et)),
                                ("with_capacity_in", "let v: AnyVec<%s, Heap> = AnyVec::with_capacity_in::<%s>(4, Heap);" % (st, et)),
                                ("new_in_stack", "let v: AnyVec<%s, Stack<64>> = AnyVec::new_in::<%s>(Stack::<64>);" % (st, et))]:
                probes.append(Probe("ctor/%s/%s/%s" % (cname, sname, ename), [code], "accept" if ok else "reject", "constructor:" + ("ok" if ok else "missing-constraint"), meta={"nontrivial": True}))
    # clone / element_clone / lazy_clone only with Cloneable
    for (st, sname, sc, ssend, ssync) in SETS:
        for bname in ("Heap", "Stack"):
            bt = BACKENDS[bname][0]
            for mname, code in [("clone", "fn f(v: &AnyVec<%s, %s>) { let c: AnyVec<%s, %s> = v.clone(); }" % (st, bt, st, bt)),
                                ("element_clone", "fn f(v: &AnyVec<%s, %s>) { let c = v.element_clone(); }" % (st, bt)),
                                ("lazy_clone_of_element", "fn f(v: &AnyVec<%s, %s>) { let e = v.at(0); let l = e.lazy_clone(); }" % (st, bt)),
                                ("lazy_clone_of_handle", "fn f(v: &mut AnyVec<%s, %s>) { let h = v.remove(0); let l = h.lazy_clone(); }" % (st, bt))]:
                probes.append(Probe("cloneable/%s/%s/%s" % (mname, sname, bname), [code], "accept" if sc else "reject", "clone:" + ("ok" if sc else "not-cloneable"), meta={"nontrivial": True}))
            # control: clone_empty is always available
            probes.append(Probe("cloneable/clone_empty/%s/%s" % (sname, bname), ["fn f(v: &AnyVec<%s, %s>) { let c = v.clone_empty(); }" % (st, bt)], "accept", "control"))
    # capacity methods x backend capability
    for bname in ("Heap", "Stack", "StackN", "Empty", "UserPlain"):
        b = BACKENDS[bname]
        bt = b[0]
        for mname, code, ok in [
            ("reserve", "fn f(v: &mut AnyVec<dyn None, %s>) { v.reserve(1); }" % bt, b[5]),
            ("reserve_exact", "fn f(v: &mut AnyVec<dyn None, %s>) { v.reserve_exact(1); }" % bt, b[5]),
            ("shrink_to_fit", "fn f(v: &mut AnyVec<dyn None, %s>) { v.shrink_to_fit(); }" % bt, b[5]),
            ("shrink_to", "fn f(v: &mut AnyVec<dyn None, %s>) { v.shrink_to(1); }" % bt, b[5]),
            ("typed_reserve", "fn f(v: &mut AnyVec<dyn None, %s>) { v.downcast_mut::<u8>().unwrap().reserve(1); }" % bt, b[5]),
            ("typed_reserve_exact", "fn f(v: &mut AnyVec<dyn None, %s>) { v.downcast_mut::<u8>().unwrap().reserve_exact(1); }" % bt, b[5]),
            ("typed_shrink_to_fit", "fn f(v: &mut AnyVec<dyn None, %s>) { v.downcast_mut::<u8>().unwrap().shrink_to_fit(); }" % bt, b[5]),
            ("typed_shrink_to", "fn f(v: &mut AnyVec<dyn None, %s>) { v.downcast_mut::<u8>().unwrap().shrink_to(1); }" % bt, b[5]),
            ("with_capacity", "let v: AnyVec<dyn None, %s> = AnyVec::with_capacity::<u8>(1);" % bt, b[6] and b[8]),
            ("with_capacity_in", "let v: AnyVec<dyn None, %s> = AnyVec::with_capacity_in::<u8>(1, Default::default());" % bt, b[6]),
            ("into_raw_parts", "fn f(v: AnyVec<dyn None, %s>) { let p = v.into_raw_parts(); }" % bt, b[7]),
            ("new", "let v: AnyVec<dyn None, %s> = AnyVec::new::<u8>();" % bt, b[8]),
            ("push_pop", "fn f(v: &mut AnyVec<dyn None, %s>) { v.push(AnyValueWrapper::new(1u8)); let _ = v.pop(); }" % bt, True),
        ]:
            probes.append(Probe("capability/%s/%s" % (mname, bname), [code], "accept" if ok else "reject", "capability:" + ("ok" if ok else "unsupported"), meta={"nontrivial": True}))
    # opaque typed drain / splice iterators: Send/Sync only when element and backend allow it
    for ename, (et, es, ey, ec) in ELEMS.items():
        if not ec:
            continue
        for bname in ("Heap", "UserBuilderNotSync", "UserMemNotSendNotSync", "UserMemNotSync", "UserBuilderNotSend"):
            b = BACKENDS[bname]
            for it, mk in [("drain", "t.drain(..)"), ("splice", "t.splice(.., Vec::<%s>::new())" % et)]:
                for trait, need, allowed in [("Send", "need_send", es and b[1] and b[3]), ("Sync", "need_sync", ey and b[2] and b[4])]:
                    code = "fn f(v: &mut AnyVec<dyn None, %s>) { let mut t = v.downcast_mut::<%s>().unwrap(); let d = %s; %s(&d); }" % (b[0], et, mk, need)
                    # only-when: if not allowed it must be rejected; if allowed either verdict is fine
                    p = Probe("typed_iter/%s/%s/%s/%s" % (it, ename, bname, trait), [code], "reject" if not allowed else "either", "typed-iterator:" + ("must-not" if not allowed else "may"), meta={"nontrivial": not allowed})
                    probes.append(p)
    return probes


def run(tier, seed, replay):
    t0 = time.time()
    rlib = common.build_lib(True)
    if not rlib:
        return 2
    if replay:
        import probes_main
        return probes_main.replay_file("C15", replay, rlib)
    work = os.path.join(common.WORK, "C15")
    import shutil
    shutil.rmtree(work, ignore_errors=True)
    os.makedirs(work, exist_ok=True)
    unexpected = []
    inconclusive = False
    # ---- part A: truth table
    results, rows = run_table(rlib, work)
    table_probes = []
    if results is None:
        inconclusive = True
    else:
        for r in rows:
            actual = results.get(r["name"])
            p = Probe(r["name"], ["// auto-trait query", "const _: bool = impls!(%s: %s);" % (r["ty"], r["trait"])], "n/a", "table:%s:%s" % (r["kind"], r["trait"]))
            p.verdict = "true" if actual else "false"
            want_no = (r["kind"] == "vec" and not (r["v_send"] if r["trait"] == "Send" else r["v_sync"])) or (r["kind"] != "vec" and not ((r["v_sync"]) if r["kind"] in ("shared", "typed_shared") else (r["v_send"] if r["trait"] == "Send" else r["v_sync"])))
            p.meta = {"nontrivial": want_no}
            p.expect = "reject" if want_no else "accept"
            table_probes.append(p)
            bad = judge_row(r, actual)
            if bad:
                sig, msg = bad
                p.body = ["fn assert_impl<T: ?Sized + %s>() {}" % r["trait"], "assert_impl::<%s>();" % r["ty"]]
                p.expect = "reject"
                unexpected.append((p, sig, msg))
    # ---- part B: compile probes
    probes = compile_probes()
    ok = common.run_batches("C15b", COMMON, probes, rlib, per_file=60)
    if not ok:
        inconclusive = True
    for p in probes:
        if p.verdict is None:
            continue
        if p.expect == "either" or p.verdict == p.expect:
            continue
        v, codes, path = common.solo_verdict(os.path.join(common.WORK, "C15b"), COMMON, p, rlib)
        p.verdict, p.codes = v, codes
        if v == p.expect:
            continue
        if p.expect == "accept":
            unexpected.append((p, "rejected:" + p.name, "program that must compile is rejected (%s): %s" % (",".join(codes), " ".join(p.body))))
        else:
            unexpected.append((p, "accepted:" + p.name, "program that must be rejected compiles: %s" % " ".join(p.body)))
    for p in probes:
        if p.expect == "either":
            p.expect = "accept"
    rule = ("part A: auto-trait truth table (Send, Sync) of AnyVec and of every public view/handle/iterator type over 8 constraint sets x 11 backends (built-in and user backends lacking Send/Sync on the builder or the Mem) "
            "and of typed views over 4 element classes, compared with the rule table (vector: exactly-when; handles: only-when, shared handles like &Vector, exclusive/owning like &mut Vector); "
            "part B: compile probes: constructor x constraint set x 8 element classes, clone/element_clone/lazy_clone x Cloneable, capacity methods x backend capability, opaque typed drain/splice iterators; "
            "non-trivial = rows/probes whose expected answer is 'no'; distinct = distinct row/probe name")
    all_p = table_probes + probes
    import probes_main
    return probes_main.finish("C15", tier, seed, t0, all_p, COMMON + TABLE_MACRO, rule, {"table_rows": len(table_probes), "compile_probes": len(probes)}, unexpected, inconclusive)
